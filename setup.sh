#!/bin/sh
# Nothing to build: the driver is Python, contracts are compiled inside each check's staged copy.
set -e
cd "$(dirname "$0")"
chmod +x check
python3 -c "import json; json.load(open('MANIFEST.json'))"
command -v cargo-kani >/dev/null || { echo "cargo-kani missing"; exit 1; }
command -v verus >/dev/null || { echo "verus missing"; exit 1; }
echo setup ok
