"""Per-property configuration: which contract module is injected where, the tiers, the trusted base."""

COMMON_TRUSTED = [
    "Kani 0.68.0 / CBMC 6.11 / kissat+minisat (bit-precise symbolic execution and SAT/SMT back end)",
    "rustc (Kani's pinned nightly for the verified build; the repository toolchain for native replay)",
    "staging edit 1: `log` built with its own feature max_level_off (logging statements compiled out; they never touch machine state)",
    "staging edit 2: proc-macro2 1.0.56 -> 1.0.106 in the *staged* Cargo.lock only (build-time proc-macro dependency; 1.0.56 does not build on Kani's nightly)",
    "reference tables in /verif/contracts (my reading of the property statements and the documentation comments) are the oracle",
]
COMMON_ASSUMPTIONS = [
    "the verified text is /repo's working tree copied byte for byte; contract modules are appended as `#[cfg(any(kani, verif_replay))] mod …;` lines (add-only)",
    "`&self` methods do not mutate (no interior mutability in the machine types)",
]

PROPS = {}

# properties not claimed (yet or ever), with the one-line reason that goes into MANIFEST.not_applicable
_WIP = "check not built yet in this round (planned, see DESIGN.md section 5)"
NOT_APPLICABLE = {
    "C01": _WIP, "C02": _WIP, "C04": _WIP, "C05": _WIP, "C06": _WIP, "C07": _WIP, "C09": _WIP,
    "C11": _WIP, "C12": _WIP, "C13": _WIP, "C14": _WIP, "C15": _WIP,
    "C03": "accept/reject and AST construction live in a proc-macro-generated PEG parser over `str`; Verus cannot reason about str/macro output and Kani cannot carry a symbolic text past the mandatory header, so no contract within reach states 'accepts exactly this language'",
    "C16": "composes core::fmt/pad string formatting with the pest parser over all ASTs; both halves are str-level and outside what Verus accepts or Kani can bound meaningfully",
    "C17": "behaviour is spread over crossterm event polling, tui rendering, a nom grammar over str and a filesystem completer: terminal/filesystem effects and string combinators neither verifier can execute or specify",
}

PROPS["C08"] = {
    "inject": [("emulator-2a-lib/src/machine/alu.rs", "c08_alu.rs", "verif_c08")],
    "functions": ["machine::alu::AluOutput::from_input", "<AluSelect as FromPrimitive>::from_u8 (decoder used by the CPU)"],
    "timeout": 300,
    "technique": "function contract (postcondition = documented function table) on AluOutput::from_input, discharged over the full input space by Kani/CBMC and by Verus on the extracted body",
    "level_text": "Proof: for each of the 16 functions the postcondition result/carry/zero/negative == documented table is discharged for all 256x256x2 inputs by a loop-free symbolic query on the real function (complete, no bound).",
    "level_note": "Trusted: Kani/CBMC, rustc, my transcription of the documented table (alu_ref); carry-out of A/NOR/ZERO characterised from the pinned tree.",
    "samples": [
        {"obligation": "C08.ADDH.carry", "text": "forall a,b:u8, cin:bool. from_input(a,b,cin,ADDH).carry_out == (cin || a+b > 255)", "domain": "256 x 256 x 2, symbolic"},
        {"obligation": "C08.RR.result", "text": "forall a. from_input(a,_,_,RR).output == (a>>1) | (a&1)<<7", "domain": "symbolic"},
    ],
    "trusted": [],
    "assumptions": ["carry-out of A / NOR / ZERO (not given by the statement) is characterised from the pinned tree as 0"],
}

ST_BOARD = ("emulator-2a-lib/src/machine/board.rs", "st_board.rs", "verif_st_board")
ST_BUS = ("emulator-2a-lib/src/machine/bus.rs", "st_bus.rs", "verif_st_bus")

PROPS["C10"] = {
    "inject": [ST_BOARD, ST_BUS, ("emulator-2a-lib/src/machine/bus.rs", "c10_bus.rs", "verif_c10")],
    "functions": ["machine::bus::Bus::write", "machine::bus::Bus::read", "Bus::input_fc/fd/fe/ff", "Bus::cpu_reset / master_reset (RAM frame)", "Bus::get_level_interrupt / take_edge_interrupt (RAM frame)"],
    "timeout": 600,
    "technique": "function contracts (postcondition + whole-state frame) on Bus::write / Bus::read / input setters over a fully symbolic Bus, discharged by Kani/CBMC",
    "level_text": "Proof: per-call postcondition and whole-bus frame equality for every address x byte over a fully symbolic bus state (240 symbolic RAM bytes, all registers, whole board); loop-free, complete. 'Until overwritten' follows by induction from the RAM frame of every mutator.",
    "level_note": "Trusted: Kani/CBMC, rustc, bus_ref (address map transcribed from the Bus doc comment and the property statement). What the board does with a port write is C14's contract; C10 only proves the write reaches the port and nothing outside the board moves.",
    "samples": [
        {"obligation": "C10.W.ram.frame", "text": "addr<=0xEF ==> write(addr,byte) yields exactly old[ram[addr]:=byte] (every other field bit-identical)", "domain": "symbolic Bus x 240 addresses x 256 bytes"},
        {"obligation": "C10.W.io.ram-untouched", "text": "addr>=0xF0 ==> ram' == ram", "domain": "symbolic"},
    ],
    "trusted": [],
    "assumptions": [],
}
