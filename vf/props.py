"""Per-property configuration: which contract module is injected where, the tiers, the trusted base."""

COMMON_TRUSTED = [
    "Kani 0.68.0 / CBMC 6.11 / kissat+minisat (bit-precise symbolic execution and SAT/SMT back end)",
    "rustc (Kani's pinned nightly for the verified build; the repository toolchain for native replay)",
    "staging edit 1: `log` built with its own feature max_level_off (logging statements compiled out; they never touch machine state)",
    "staging edit 2: proc-macro2 1.0.56 -> 1.0.106 in the *staged* Cargo.lock only (build-time proc-macro dependency; 1.0.56 does not build on Kani's nightly)",
    "reference tables in /verif/contracts (my reading of the property statements and the documentation comments) are the oracle",
]
COMMON_ASSUMPTIONS = [
    "the verified text is /repo's working tree copied byte for byte; contract modules are appended as `#[cfg(any(kani, verif_replay))] mod …;` lines (add-only)",
    "`&self` methods do not mutate (no interior mutability in the machine types)",
]

PROPS = {}

# properties not claimed (yet or ever), with the one-line reason that goes into MANIFEST.not_applicable
_WIP = "check not built yet in this round (planned, see DESIGN.md section 5)"
NOT_APPLICABLE = {
    "C03": "accept/reject and AST construction live in a proc-macro-generated PEG parser over `str`; Verus cannot reason about str/macro output and Kani cannot carry a symbolic text past the mandatory header, so no contract within reach states 'accepts exactly this language'",
    "C16": "composes core::fmt/pad string formatting with the pest parser over all ASTs; both halves are str-level and outside what Verus accepts or Kani can bound meaningfully",
    "C17": "behaviour is spread over crossterm event polling, tui rendering, a nom grammar over str and a filesystem completer: terminal/filesystem effects and string combinators neither verifier can execute or specify",
}

PROPS["C08"] = {
    "inject": [("emulator-2a-lib/src/machine/alu.rs", "c08_alu.rs", "verif_c08")],
    "functions": ["machine::alu::AluOutput::from_input", "<AluSelect as FromPrimitive>::from_u8 (decoder used by the CPU)"],
    "verus": "c08",
    "timeout": 300,
    "technique": "function contract (postcondition = documented function table) on AluOutput::from_input, discharged over the full input space by Kani/CBMC and by Verus on the extracted body",
    "level_text": "Proof: for each of the 16 functions the postcondition result/carry/zero/negative == documented table is discharged for all 256x256x2 inputs by a loop-free symbolic query on the real function (complete, no bound).",
    "level_note": "Trusted: Kani/CBMC, rustc, my transcription of the documented table (alu_ref); carry-out of A/NOR/ZERO characterised from the pinned tree.",
    "samples": [
        {"obligation": "C08.ADDH.carry", "text": "forall a,b:u8, cin:bool. from_input(a,b,cin,ADDH).carry_out == (cin || a+b > 255)", "domain": "256 x 256 x 2, symbolic"},
        {"obligation": "C08.RR.result", "text": "forall a. from_input(a,_,_,RR).output == (a>>1) | (a&1)<<7", "domain": "symbolic"},
    ],
    "trusted": ["Verus 0.2026.09.13 / Z3 (second back end on the mechanically extracted body)",
                "assume_specification for u8::overflowing_add, u8::overflowing_shr and <u8 as From<bool>>::from (Verus only; Kani executes the real std code bit-precisely)"],
    "assumptions": ["carry-out of A / NOR / ZERO (not given by the statement) is characterised from the pinned tree as 0"],
}

ST_BOARD = ("emulator-2a-lib/src/machine/board.rs", "st_board.rs", "verif_st_board")
ST_BUS = ("emulator-2a-lib/src/machine/bus.rs", "st_bus.rs", "verif_st_bus")

PROPS["C10"] = {
    "inject": [ST_BOARD, ST_BUS, ("emulator-2a-lib/src/machine/bus.rs", "c10_bus.rs", "verif_c10")],
    "functions": ["machine::bus::Bus::write", "machine::bus::Bus::read", "Bus::input_fc/fd/fe/ff", "Bus::cpu_reset / master_reset (RAM frame)", "Bus::get_level_interrupt / take_edge_interrupt (RAM frame)"],
    "timeout": 600,
    "technique": "function contracts (postcondition + whole-state frame) on Bus::write / Bus::read / input setters over a fully symbolic Bus, discharged by Kani/CBMC",
    "level_text": "Proof: per-call postcondition and whole-bus frame equality for every address x byte over a fully symbolic bus state (240 symbolic RAM bytes, all registers, whole board); loop-free, complete. 'Until overwritten' and last-write-wins over any history of bus operations: induction over the per-call RAM clauses, mechanised in Verus (verus/lemma_history.rs).",
    "verus": "lemmas_history",
    "level_note": "Trusted: Kani/CBMC, rustc, bus_ref (address map transcribed from the Bus doc comment and the property statement). What the board does with a port write is C14's contract; C10 only proves the write reaches the port and nothing outside the board moves.",
    "samples": [
        {"obligation": "C10.W.ram.frame", "text": "addr<=0xEF ==> write(addr,byte) yields exactly old[ram[addr]:=byte] (every other field bit-identical)", "domain": "symbolic Bus x 240 addresses x 256 bytes"},
        {"obligation": "C10.W.io.ram-untouched", "text": "addr>=0xF0 ==> ram' == ram", "domain": "symbolic"},
    ],
    "trusted": [],
    "assumptions": [],
}

ST_ALU = ("emulator-2a-lib/src/machine/alu.rs", "st_alu.rs", "verif_st_alu")
ST_RAW = ("emulator-2a-lib/src/machine/raw/mod.rs", "st_raw.rs", "verif_st_raw")
ST_ALL = [ST_ALU, ST_BOARD, ST_BUS, ST_RAW]
ST_MACHINE = ("emulator-2a-lib/src/machine/mod.rs", "st_machine.rs", "verif_st_machine")

PROPS["C13"] = {
    "inject": ST_ALL + [ST_MACHINE, ("emulator-2a-lib/src/machine/raw/mod.rs", "c13_raw.rs", "verif_c13"),
                        ("emulator-2a-lib/src/machine/raw/mod.rs", "c05_raw.rs", "verif_c05"),
                        ("emulator-2a-lib/src/machine/mod.rs", "c05_machine.rs", "verif_c05m")],
    "select": lambda allh, tier, seed: [h for h in allh if h.startswith("c13_") or h in ("c05_setters_leave_halt", "c05_load_establishes")],
    "functions": ["RawMachine::trigger_clock_edge", "RawMachine::trigger_key_edge_interrupt", "RawMachine::trigger_key_continue",
                  "RawMachine::cpu_reset", "RawMachine::master_reset", "RawMachine::set_stacksize", "RawMachine::set_programsize",
                  "RawMachine::is_stackpointer_valid", "RawMachine::is_program_counter_valid", "Signals::* (all decoders)",
                  "Machine::set_* (13 setters, f32 arguments over all bit patterns incl. NaN/inf)", "Bus::read / Bus::write at symbolic addresses (through the edge and the getters)"],
    "verus": "lemmas_induct",
    "timeout": 900,
    "technique": "representation invariant wf preserved + Kani's panic/overflow/bounds obligations on every public mutator from an arbitrary wf state (inductive invariant), Kani/CBMC",
    "level_text": "Proof: for every public mutator op and every invariant-satisfying machine state (all fields symbolic), op returns normally and re-establishes the invariant; with the base case (power-on state) this covers every RAM image, limit setting and interleaving by induction (the induction step itself is mechanised in Verus, verus/lemma_induct.rs).",
    "level_note": "Trusted: Kani/CBMC, rustc. Precondition set_stacksize(!= NotSet) is justified at its only call site (Machine::load). Termination of the assembly-step loop is C11's obligation.",
    "samples": [{"obligation": "C13.edge.wf-preserved", "text": "wf(m) ==> trigger_clock_edge(m) returns without panic/overflow/OOB and wf(m')", "domain": "512 micro-addresses x 256 IR x symbolic registers, RAM, latches, limits, board"}],
    "trusted": [],
    "assumptions": ["wf includes 'stack size != NotSet' (established by RawMachine::new and kept by Machine::load) and 'level-interrupt latch empty' (no level source exists in the bus)"],
}


PROPS["C05"] = {
    "inject": ST_ALL + [ST_MACHINE, ("emulator-2a-lib/src/machine/raw/mod.rs", "c05_raw.rs", "verif_c05"),
                        ("emulator-2a-lib/src/machine/mod.rs", "c05_machine.rs", "verif_c05m")],
    "functions": ["RawMachine::trigger_clock_edge", "RawMachine::is_stackpointer_valid", "RawMachine::is_program_counter_valid",
                  "RawMachine::trigger_key_continue", "RawMachine::trigger_key_edge_interrupt", "RawMachine::cpu_reset/master_reset",
                  "RawMachine::set_stacksize/set_programsize", "Machine::set_* (13 setters)", "Machine::load (limits)"],
    "verus": "lemmas_induct",
    "timeout": 900,
    "technique": "single-edge postconditions (exact halt clause, absorption as whole-state equality) and an inductive supervision invariant over a fully symbolic machine, Kani/CBMC",
    "level_text": "Proof: the exact state' clause, the absorbing-halt clause (whole-struct equality) and the invariant 'not error-stopped => SP/PC rules hold' are discharged for one clock edge / key / reset / setter from every invariant-satisfying machine state with symbolic stack and program size; by induction they hold after every history (induction and 'absorbing under any number of edges' mechanised in Verus, verus/lemma_induct.rs).",
    "level_note": "Trusted: Kani/CBMC, rustc. Band constants and 'IR is loaded' (MAC0 & MAC2 & !MAC1) are characterised from the pinned tree; when a limit-breaking commit and a STOP fetch coincide the clause gives the error stop priority.",
    "samples": [{"obligation": "C05.E.halt.edge-changes-nothing", "text": "state != Running ==> trigger_clock_edge(m) == m (all fields)", "domain": "fully symbolic wf machine"},
                {"obligation": "C05.E.super.error-stop-exactly-when", "text": "Running & no wait ==> (state' == ErrorStopped <=> (commit & !(sp_ok' & pc_ok')) | (IR load & byte == 0))", "domain": "fully symbolic wf machine, 5 stack sizes x Size(0..255)/Auto/NotSet"}],
    "trusted": [],
    "assumptions": [],
}

PROPS["C07"] = {
    "inject": ST_ALL + [ST_MACHINE,
                        ("emulator-2a-lib/src/machine/board.rs", "c07_board.rs", "verif_c07b"),
                        ("emulator-2a-lib/src/machine/bus.rs", "c07_bus.rs", "verif_c07u"),
                        ("emulator-2a-lib/src/machine/raw/mod.rs", "c07_raw.rs", "verif_c07"),
                        ("emulator-2a-lib/src/machine/mod.rs", "c07_machine.rs", "verif_c07m")],
    "functions": ["Board::master_reset", "Bus::cpu_reset", "Bus::master_reset", "RawMachine::cpu_reset", "RawMachine::master_reset",
                  "Machine::cpu_reset", "Machine::master_reset", "Machine::load"],
    "timeout": 900,
    "technique": "postcondition + frame contracts on each reset/load function from an arbitrary (fully symbolic, not only invariant-satisfying) pre-state, Kani/CBMC",
    "level_text": "Proof: each reset function's postcondition (documented fields at power-on values, documented frame bit-identical) is discharged from every possible pre-state, so it holds after any history; load = master reset + RAM image + limits.",
    "level_note": "Trusted: Kani/CBMC, rustc. MISR, UART bytes, DAISR and the non-jumper DASR bits are not named by the statement and left unconstrained. R.load is BOUNDED in the image length (three small shapes incl. the empty image, bytes symbolic). The 'runs cycle-for-cycle as on a new machine' consequence rests on the edge being a function of the CPU projection: proved as a 2-safety obligation on the real edge in the thorough tier (c07_x_edge_independent_of_board); the induction over edges is argued.",
    "bounded": ["c07_load_*: image shapes (0,0), (3,2), (1,3) bytes over three lines, bytes symbolic (unwind 10); thorough tier adds c07_x_load_*_clears_stale_ram (empty and one-byte image, unwind 245)"],
    "samples": [{"obligation": "C07.R.master.bus-and-board", "text": "master_reset: inputs/timer/outputs/MICR/UCR power-on, board outputs/DAICR/fan/UIO directions power-on, RAM and board inputs bit-identical", "domain": "every field of RawMachine symbolic incl. all f32 bit patterns"}],
    "trusted": [],
    "assumptions": [],
}

PROPS["C14"] = {
    "inject": [ST_BOARD, ST_BUS, ("emulator-2a-lib/src/machine/board.rs", "c14_board.rs", "verif_c14"),
               ("emulator-2a-lib/src/machine/bus.rs", "c14_bus.rs", "verif_c14u")],
    "functions": ["Board::set_temp", "Board::set_analog_input1/2", "Board::set_digital_output1/2", "Board::set_jumper1/2", "Board::set_digital_input1",
                  "Board::set_universal_input_output1/2/3", "Board::set_uor/set_udr/set_icr/delete_int_ff", "Board::get_fan_period",
                  "Board::update_comp1/update_comp2 (through their callers)", "Bus::write 0xF0-0xF3", "Bus::read 0xF0-0xF3"],
    "verus": "lemmas_induct",
    "timeout": 900,
    "technique": "data-structure invariant (I.board) + exact per-operation postconditions with whole-board frame, f32 arguments fully symbolic (CBMC IEEE-754), Kani/CBMC",
    "level_text": "Proof: every board operation is given its exact post-state (clamping, DAC voltage, comparator bit, exact DAISR = edge raised iff the selected source makes its configured transition, everything else bit-identical) and shown to preserve the board invariant from every invariant-satisfying board, for all byte values and all 2^32 f32 patterns; by induction from Board::new() the statement holds after any sequence.",
    "level_note": "Trusted: Kani/CBMC incl. its IEEE-754 float model, rustc. Histories start at Board::new() and consist of port writes and external setters (resets are C07's and do not recompute comparators). Effects of UOR/ICR writes beyond the statement are characterised from the pinned tree. Fan law checked within 1 LSB (rpm is stored as an integer).",
    "samples": [{"obligation": "C14.B.edge.comp1-by-dac-write", "text": "DAISR' == DAISR | (source==COMP1 & transition matches FALLING ? SOURCE|INT_FF : 0)", "domain": "symbolic board x 256 bytes"},
                {"obligation": "C14.B.clamp.temperature", "text": "forall v: f32 (all bit patterns). temp' == clamp(v), NaN -> 0", "domain": "2^32 patterns, symbolic"}],
    "trusted": ["CBMC's IEEE-754 semantics for f32 compare, divide, int->float and float->int casts"],
    "assumptions": [],
}


def _pregen_c09(stage, native_run):
    import os, gen_c09
    out = native_run(stage, "verif_replay_c09", "gen_c09_dump")
    lines = out.splitlines()
    fetch = {int(l.split()[1]) for l in lines if l.startswith("F ")}
    D, U = gen_c09.build(lines)
    text, info = gen_c09.emit(D, U, fetch)
    open(os.path.join(stage.gen, "c09_cert.rs"), "w").write(text)
    return info


PROPS["C09"] = {
    "inject": ST_ALL + [("emulator-2a-lib/src/machine/raw/mod.rs", "c09_seq.rs", "verif_c09")],
    "pregen": _pregen_c09,
    "functions": ["Signals::next_microprogram_address (+ am1..am4, address_logic_1..3)", "MachineAfterRegWrite::update_instruction_from_bus (IR load / reset)",
                  "MachineAfterInterruptFetching::update_word", "MicroprogramRam::CONTENT (the real table)", "RawMachine::trigger_clock_edge (MUL/DIV loop variants)"],
    "timeout": 900,
    "technique": "ghost certificate (reachable control states, rank, stuck set) generated by walking the real sequencer natively and CHECKED by one symbolic Kani query over addr x IR x flags x ALU conditions x interrupt x fetched byte; loop variants for MUL/DIV on the real clock edge",
    "level_text": "Proof: the certificate is an inductive invariant of the real next-address/IR-load code (closure), every certified successor is a programmed word in the routine of the IR, the rank to the next fetch strictly decreases outside the MUL/DIV routines, each MUL/DIV pass strictly decreases its variant for all data, and the stuck set of the 20 undefined first bytes is closed and fetch-free.",
    "level_note": "Trusted: Kani/CBMC, rustc. The certificate generator (native walk + Python) is untrusted: a wrong certificate fails closure. The defined second-byte set (MOV/CMP/BITT/LDSP/LDFR/BITS/BITC) is transcribed from the statement and the encoder. 'Bounded' = rank <= 255 words plus <= 8 (MUL) / <= 256 (DIV) passes.",
    "samples": [{"obligation": "C09.N.closure", "text": "cert(addr, IR) ==> cert(control_step(addr, IR, flags, co, zo, no, iff, byte))", "domain": "512 x 256 x 2^4 x 2^3 x 2 x 256, symbolic"}],
    "trusted": [],
    "assumptions": [],
}

C01_INJECT = ST_ALL + [("emulator-2a-lib/src/machine/raw/mod.rs", "c01_isa.rs", "verif_isa"),
                       ("emulator-2a-lib/src/machine/raw/mod.rs", "c01_triples.rs", "verif_c01"),
                       ("emulator-2a-lib/src/machine/raw/mod.rs", "c01_loops.rs", "verif_c01l")]

C01_QUICK_CORE = ["c01_nop", "c01_clr", "c01_ei", "c01_push", "c01_pop", "c01_popf", "c01_jr_b0_taken", "c01_jr_b1_not", "c01_call", "c01_reti",
                  "c01_neg", "c01_asr", "c01_rrc", "c01_inc", "c01_dec", "c01_add_s1", "c01_adc_s2", "c01_sub_s0", "c01_and_s3", "c01_or_s1", "c01_xor_s2",
                  "c01_stop", "c01_fetch_words_identical", "c01_src_reg", "c01_src_dinc", "c01_mov_ind", "c01_mov_dinc", "c01_cmp_inc", "c01_bitt_reg",
                  "c01_ldsp", "c01_ldfr", "c01_bits_ind", "c01_bitc_inc", "c01_reset_reaches_boundary", "c01_canary",
                  "c01_mul_entry", "c01_mul_pass_1_more", "c01_mul_pass_0_more", "c01_mul_pass_1_last", "c01_mul_pass_0_last", "c01_mul_exit",
                  "c01_div_entry", "c01_div_by_zero", "c01_div_pass_more", "c01_div_pass_last", "c01_div_exit", "c01_loops_canary"]


def _select_c01(allh, tier, seed):
    """every tier runs every triple (about 5-6 min on 16 cores): a change to ONE of the four entry words of
    a two-register routine, or to one addressing-mode word, is otherwise seen only when sampled."""
    return allh
    import random
    core = [h for h in allh if h in C01_QUICK_CORE]
    rest = [h for h in allh if h not in C01_QUICK_CORE and not h.startswith("gen_")]
    random.Random(seed).shuffle(rest)
    return core + rest[:6]


def _pregen_c01(stage, native_run, extra=()):
    import os
    out = native_run(stage, "verif_replay_c01", "gen_c01_paths")
    for (entry, fn) in extra:
        out += "\n" + native_run(stage, entry, fn)
    paths = {}
    for l in out.splitlines():
        p = l.split()
        if len(p) >= 3 and p[0] == "P":
            paths[p[1]] = [int(x) for x in p[2:]]
    if not paths:
        raise RuntimeError("no micro-paths recorded")
    with open(os.path.join(stage.gen, "c01_paths.rs"), "w") as f:
        f.write("// generated per run by the native path recorder (real clock edge); untrusted, every address is asserted\n")
        f.write("#[allow(non_upper_case_globals)]\npub(crate) mod paths {\n")
        for n, p in sorted(paths.items()):
            f.write("    pub(crate) const %s: &[usize] = &[%s];\n" % (n, ", ".join("0x%03X" % a for a in p)))
        f.write("}\n")
    return {"micro_paths": {n: " ".join("%03X" % a for a in p) for n, p in sorted(paths.items())}}


PROPS["C01"] = {
    "inject": C01_INJECT,
    "pregen": _pregen_c01,
    "verus": "lemmas",
    "groups": [{"match": "fetch_words_identical", "flags": []},
               {"match": ".*", "flags": ["-Z", "stubbing", "--no-memory-safety-checks", "--no-overflow-checks"]}],
    "select": lambda allh, tier, seed: _select_c01(allh, tier, seed),
    "functions": ["RawMachine::trigger_clock_edge (all seven pipeline stages)", "AluOutput::from_input", "Bus::read / Bus::write", "Signals::*", "MicroprogramRam::CONTENT"],
    "timeout": 900,
    "technique": "Hoare triples per instruction form on the real clock-edge function with all data symbolic (register field symbolic, routine-selecting opcode bits fixed), boundary predicate as inductive invariant; loop invariants for MUL/DIV; Kani/CBMC",
    "level_text": "Proof per instruction form: from every boundary state with that opcode (all registers incl. scratch, flags, PC, SP, RAM, I/O symbolic) the real micro-path re-establishes the boundary with exactly the ISA reference's view and nothing else changed; sequences follow by induction over boundaries.",
    "level_note": "Trusted: Kani/CBMC, rustc, my ISA reference (isa_exec: flag rules beyond the statement transcribed from the microprogram listing). Supervision events on the path are excluded (C05). Two-byte forms are cut at the second-opcode fetch (source-phase and destination-phase triples compose).",
    "samples": [{"obligation": "C01.SUB.view", "text": "{B & opcode=0x8s|d} path {B' & Rd'=Rd-Rs & C'=borrow & Z',N' & rest unchanged}", "domain": "all registers, flags, PC, SP, 240 RAM bytes symbolic; d symbolic, s per harness"}],
    "trusted": ["kani::stub stand-ins for Board::set_digital_output1/2 and Board::get_fan_period inside the instruction triples (uninterpreted-board abstraction; real behaviour = C14)",
                "the wait-consuming clock edge is used through its contract C05.E.wait / C15.E.wait (proved on the real function)"],
    "assumptions": ["WLOG boundary word 0x006 (all fetch words proved identical)", "no pending key interrupt during the triple (interrupt entry is C04's triple)"],
}

C15_QUICK = ["c15_wait_consumed", "c15_wait_generated", "c15_data_dependent_counts", "c15_loop_words_have_no_bus_access", "c15_canary",
             "c15_nop", "c15_push", "c15_pop", "c15_call", "c15_reti", "c15_neg", "c15_add_s0", "c15_add_s1", "c15_add_s2", "c15_add_s3", "c15_adc_s0", "c15_adc_s1", "c15_adc_s2", "c15_adc_s3", "c15_sub_s0", "c15_sub_s1", "c15_sub_s2", "c15_sub_s3", "c15_and_s0", "c15_and_s1", "c15_and_s2", "c15_and_s3", "c15_or_s0", "c15_or_s1", "c15_or_s2", "c15_or_s3", "c15_xor_s0", "c15_xor_s1", "c15_xor_s2", "c15_xor_s3", "c15_src_inc", "c15_src_dinc",
             "c15_mov_ind", "c15_mov_dinc", "c15_cmp_inc", "c15_bitt_dinc", "c15_ldsp", "c15_bits_ind", "c15_bitc_dinc"]


def _select_c15(allh, tier, seed):
    if tier != "quick":
        return allh
    import random
    core = [h for h in allh if h in C15_QUICK]
    rest = [h for h in allh if h not in C15_QUICK and not h.startswith("gen_")]
    random.Random(seed).shuffle(rest)
    return core + rest[:5]


PROPS["C15"] = {
    "inject": C01_INJECT + [("emulator-2a-lib/src/machine/raw/mod.rs", "c15_cycles.rs", "verif_c15")],
    "pregen": _pregen_c01,
    "groups": [{"match": "c15_(wait|data|loop|canary)", "flags": []},
               {"match": ".*", "flags": ["-Z", "stubbing", "--no-memory-safety-checks", "--no-overflow-checks"]}],
    "select": _select_c15,
    "functions": ["RawMachine::trigger_clock_edge (wait generation in read_from_memory / write_to_memory, wait consumption)", "MicroprogramRam::CONTENT"],
    "timeout": 900,
    "technique": "single-edge contracts for wait generation/consumption over a fully symbolic machine + per-form pinned-path obligations (same micro-path for all data, one wait per RAM-access word) + committed per-form word counts, Kani/CBMC",
    "level_text": "Proof: (1) a pending wait is consumed by exactly one edge that changes nothing else; (2) an executed word leaves a wait pending iff it drives the bus at an address <= 0xEF; (3) for each instruction form the real machine follows one certified micro-path for all data, each word generating exactly the predicted wait, hence edges = words + RAM accesses; (4) words per form equal the committed table.",
    "level_note": "Trusted: Kani/CBMC, rustc; the per-form word table in contracts/c15_cycles.rs is transcribed from the microprogram listing (it is the 'documented path' oracle); board float operations stubbed in the per-form harnesses (as in C01). MUL/DIV: per-pass counts; the closed form over all operand pairs follows from C01's loop contracts.",
    "samples": [{"obligation": "C15.E.waitgen.wait-iff-ram-access", "text": "Running & no wait ==> after edge: wait pending <=> (BUSEN|BUSWR of executed word) & A-register <= 0xEF", "domain": "fully symbolic wf machine"}],
    "trusted": ["kani::stub stand-ins for three float-heavy Board operations inside the per-form harnesses"],
    "assumptions": [],
}


def _pregen_c04(stage, native_run):
    info = _pregen_c09(stage, native_run)
    info.update(_pregen_c01(stage, native_run, extra=[("verif_replay_c04", "gen_c04_paths")]))
    return info


PROPS["C04"] = {
    "inject": C01_INJECT + [("emulator-2a-lib/src/machine/raw/mod.rs", "c09_seq.rs", "verif_c09"),
                            ("emulator-2a-lib/src/machine/raw/mod.rs", "c04_int.rs", "verif_c04")],
    "pregen": _pregen_c04,
    "verus": "lemmas_compose",
    "groups": [{"match": "c04_entry|c01_reti", "flags": ["-Z", "stubbing", "--no-memory-safety-checks", "--no-overflow-checks"]},
               {"match": ".*", "flags": []}],
    "select": lambda allh, tier, seed: [h for h in allh if h.startswith("c04_") or h == "c01_reti" or h in ("c09_step", "c09_init")],
    "functions": ["RawMachine::trigger_key_edge_interrupt", "RawMachine::trigger_clock_edge (fetch_interrupts, update_word: interrupt branch and flip-flop clear)",
                  "Signals::address_logic_1/2, interrupt_logic_1", "interrupt entry micro-routine 0x010-0x017", "RETI micro-routine"],
    "timeout": 900,
    "technique": "contract on the key trigger (postcondition + whole-state frame), interrupt clause of the clock edge over all certified control states, Hoare triples for the entry routine and RETI on the real clock edge, Kani/CBMC; transparency by composition (argued)",
    "level_text": "Proof of the per-call obligations: the key sets the flip-flop iff enabled and touches nothing else; an edge changes the flip-flop only at an end-of-instruction sampling word, takes the interrupt there iff pending and IE, clears it exactly then, and int-words are entered in no other way; the entry routine pushes FR and the next instruction's address, disables interrupts and continues at 2; RETI restores PC and FR. 'Whatever cycle the key is pressed in' follows because every non-sampling edge (incl. wait edges) keeps the flip-flop.",
    "level_note": "Trusted: Kani/CBMC, rustc, C09's certificate (re-checked here: c09_step). The composition step 'entry ; register-preserving handler ; RETI restores registers, flags incl. IE, SP and PC' is mechanised in Verus over the entry and RETI contracts (verus/lemma_compose.rs); that the rest of the run then coincides with the uninterrupted one follows from determinism of the edge (argued). The case 'pending, IE clear, at a sampling word' is unconstrained (statement silent; the code drops the press).",
    "samples": [{"obligation": "C04.E.int.flip-flop-kept-until-sampled", "text": "executed word is not an end-of-instruction branch ==> flip-flop' == flip-flop", "domain": "all certified (micro-address, IR) x fully symbolic data"}],
    "trusted": ["kani::stub stand-ins for three float-heavy Board operations inside the entry/RETI triples"],
    "assumptions": [],
}

PROPS["C11"] = {
    "inject": ST_ALL + [ST_MACHINE, ("emulator-2a-lib/src/machine/raw/mod.rs", "c09_seq.rs", "verif_c09"),
                        ("emulator-2a-lib/src/machine/raw/mod.rs", "c11_raw.rs", "verif_c11r"),
                        ("emulator-2a-lib/src/machine/mod.rs", "c11_machine.rs", "verif_c11")],
    "pregen": _pregen_c09,
    "groups": [{"match": "c11_(loop_logic|canary|x_loop_logic_long)", "flags": ["-Z", "stubbing", "--cbmc-args", "--unwindset", "memcmp.0:250"]},
               {"match": "c11_stuck_step_returns", "flags": ["--cbmc-args", "--unwindset", "memcmp.0:250"]},
               {"match": ".*", "flags": []}],
    "select": lambda allh, tier, seed: [h for h in allh if (h.startswith("c11_") and (tier != "quick" or h not in ("c11_stuck_step_returns", "c11_x_loop_logic_long"))) or h in ("c09_step", "c09_stuck", "c09_init")],
    "unwind_is_clause": True,
    "functions": ["Machine::trigger_key_clock", "Machine::set_step_mode (frame: C05)", "RawMachine::is_instruction_done", "RawMachine::trigger_clock_edge (as callee contract; real in T.real/T.term)"],
    "timeout": 900,
    "technique": "caller-against-callee-contract check of the step loop (abstract clock edge via kani::stub, ghost trace), real-mode equivalence on the real edge, fixpoint lemma for the stuck set + termination bound as unwinding assertion, Kani/CBMC; termination for defined opcodes from C09's rank",
    "level_text": "Proof of: Real mode = exactly one edge; the assembly loop issues exactly the edges the statement prescribes for every behaviour of the edge (bounded to 6 abstract edges per step); stuck states are fixpoints of the real edge and the real loop returns from them. Termination for all defined opcodes rests on C09 (rank, MUL/DIV variants).",
    "level_note": "Trusted: Kani/CBMC, rustc, C09's certificate (re-checked here). T.loop is BOUNDED in the number of abstract edges per step (K = 6; the loop has no counter, all control patterns occur within a few edges) and complete in callee behaviours. 'k steps == the corresponding edges' and 'mode switches do not alter the computation' follow because both modes compose the same deterministic edge function and step_mode lives outside RawMachine.",
    "bounded": ["c11_loop_logic: at most K = 6 abstract edges per step"],
    "samples": [{"obligation": "C11.T.loop.never-more-edges-than-needed", "text": "the step stops right after the first edge that halts the machine / completes the instruction / leaves a stuck machine unchanged", "domain": "all traces of the abstract edge up to 6 edges"}],
    "trusted": ["kani::stub(RawMachine::trigger_clock_edge -> abstract_edge) in T.loop: the callee is represented by its contract"],
    "assumptions": [],
}

C02_QUICK = ["c02_p_clr", "c02_p_add", "c02_p_sub", "c02_p_mul", "c02_p_xor", "c02_p_neg", "c02_p_lsl", "c02_p_rlc", "c02_p_rrc", "c02_p_pop", "c02_p_ret", "c02_p_reti",
             "c02_p_stop", "c02_p_di", "c02_p_jmp", "c02_p_jr", "c02_p_jzc", "c02_p_call", "c02_p_dec", "c02_p_dec_inc", "c02_p_dec_const",
             "c02_d_org", "c02_d_byte", "c02_d_stacksize", "c02_d_programsize", "c02_e_mov_0_0", "c02_e_mov_3_5", "c02_e_ds_1_4", "c02_e_ds_4_0", "c02_e_s_4", "c02_e_s_2",
             "c02_field_encoders", "c02_canary"]


def _c02_heavy(h):
    """operand-shape pairs that carry a constant / label / absolute address or an (R) source: they verify,
    but need several GB each and are sensitive to machine load -> thorough tier only"""
    import re
    if h.startswith("c02_x_"):
        return True
    m = re.match(r"c02_e_(?:mov|ds)_(\d)_(\d)$", h)
    if m:
        return int(m.group(1)) in (2, 5) or int(m.group(2)) in (1, 2, 3, 6, 7)
    m = re.match(r"c02_e_s_(\d)$", h)
    return bool(m) and int(m.group(1)) in (1, 2, 3, 6, 7)


def _select_c02(allh, tier, seed):
    if tier != "quick":
        return allh
    import random
    core = [h for h in allh if h in C02_QUICK]
    rest = [h for h in allh if h not in C02_QUICK and not _c02_heavy(h) and h not in ("c02_p_dec_const", "c02_p_dec_abs")]
    random.Random(seed).shuffle(rest)
    return core + rest[:6]


PROPS["C02"] = {
    "inject": [("emulator-2a-lib/src/compiler.rs", "c02_translator.rs", "verif_c02")],
    "select": _select_c02,
    "verus": "lemmas_compose",
    "groups": [{"match": ".*", "flags": ["-Z", "stubbing"]}],
    "functions": ["Translator::push_instruction", "Translator::push", "Translator::finish", "compile_instruction_mov", "from_bases_dst_and_src", "from_bases_and_src",
                  "from_base_and_reg", "from_base_and_two_regs", "relative_jump (incl. the returned closure)", "source_addr_mode / source_register / destination_addr_mode / destination_register / reg_to_u8"],
    "timeout": 600,
    "technique": "function contracts on the translator: per-line postcondition (emitted items == documented encoding, address counter advances by the emitted bytes, label table/limits frame), label definition and late substitution; Kani/CBMC over symbolic instructions of every variant and operand shape",
    "level_text": "Proof (partial, see note) per source line: for each one-byte instruction variant, each jump/call (label item and the relative-offset closure target-(address+2) mod 256), DEC with all five operand shapes, .ORG forward, .BYTE n, *STACKSIZE and *PROGRAMSIZE, with symbolic registers/constants and a symbolic address counter, the real push_instruction emits exactly the documented encoding, advances the counter by the emitted length and leaves label table and limits alone; the two-byte vector builders are proved against the reference for: compile_instruction_mov with destination R or (R+) and EVERY source shape (register, (R), (R+), ((R+)), constant, label, (address), (label)), destination ((R+)) with all but one, destinations (R), (address), (label) with the register-based sources; from_bases_dst_and_src (CMP/BITT/BITS/BITC) for all six destination shapes with sources R, (R+), ((R+)); from_bases_and_src (LDSP/LDFR) for every source shape but a numeric constant; the mode/register field functions for every shape.",
    "level_note": "Trusted: Kani/CBMC, rustc, enc_ref (my transcription of the documented encoding = dispatch layout of the control store), kani::stub(RandomState::new -> fixed keys); label texts are fixed strings (parametricity). NOT DECIDED (verifier runs out of memory on heap-string clones behind references / hash-map probing / iterator adapters): the remaining operand-shape pairs of the two-byte builders (mostly CMP/BITx with a constant, label, absolute or (R) source; their mode/register fields ARE proved), push_instruction's dispatch of MOV/CMP/BITT/BITS/BITC to those builders (LDSP, LD const, ST (R) dispatch IS proved, thorough tier), .DB/.DW data bytes, label definition + late substitution in finish (case-insensitive lookup), and the whole-image concatenation; these parts of the statement are not claimed. BOUNDED: .ORG/.BYTE fill <= 5.",
    "bounded": ["c02_d_org / c02_d_byte: fill lengths <= 5 (unwind 8)"],
    "samples": [{"obligation": "C02.P.push.items-are-documented-encoding", "text": "push_instruction(inst) appends exactly enc_ref(inst, next_addr)", "domain": "every Instruction variant x operand shape x register, symbolic constants and address"}],
    "trusted": ["kani::stub(std::hash::RandomState::new -> fixed keys)"],
    "assumptions": ["parametricity in label text"],
}

PROPS["C06"] = {
    "inject": ST_ALL + [ST_MACHINE, ("emulator-2a-lib/src/compiler.rs", "c02_translator.rs", "verif_c02"),
                        ("emulator-2a-lib/src/compiler.rs", "c06_crash.rs", "verif_c06"),
                        ("emulator-2a-lib/src/machine/mod.rs", "c06_load.rs", "verif_c06m")],
    "groups": [{"match": "c06_load", "flags": []}, {"match": ".*", "flags": ["-Z", "stubbing"]}],
    "select": lambda allh, tier, seed: [h for h in allh if h.startswith("c06_")],
    "functions": ["Translator::push_instruction", "Machine::load", "compile/encoder helpers reached from push_instruction"],
    "timeout": 900,
    "technique": "no-panic postconditions (Kani's generated panic/overflow/bounds obligations) on Translator::push_instruction per instruction variant and on Machine::load, under the precondition 'accepted by the parser'; crashing regions split off as recorded findings",
    "level_text": "Proof (partial, see note): push_instruction returns normally for every DEC operand shape, representative one-byte/jump/two-byte/limit instructions, forward .ORG and .BYTE at every position of the address counter that leaves room in the 8-bit address space; Machine::load returns normally for images that fit the RAM. The three remaining crash regions of the unchanged tree are recorded findings.",
    "level_note": "Trusted: Kani/CBMC, rustc, kani::stub(RandomState::new). NOT DECIDED: Translator::finish with labels referenced in another letter case (hash-map look-up exhausts the verifier), the parser-side label validation validate_lines (String/to_lowercase/Vec<String> handling: a one-instruction AST did not finish in 10 min; contract kept in contracts/c06_validate.rs, not registered) and the remaining instruction variants with constant/label operands (same limit as C02). BOUNDED: .ORG distance/.BYTE n <= 5, load images <= 6 symbolic bytes plus the concrete 240-byte image.",
    "bounded": ["c06_org_forward / c06_byte: distance / n <= 5", "c06_load_small_images: <= 6 bytes over two lines; c06_load_full_ram: one concrete 240-byte image"],
    "samples": [{"obligation": "C06.P.push.returns-normally", "text": "accepted(inst) & next_addr <= 251 ==> push_instruction(inst) does not panic", "domain": "symbolic registers/constants/address counter per variant"}],
    "trusted": ["kani::stub(std::hash::RandomState::new -> fixed keys)"],
    "assumptions": [],
}

PROPS["C12"] = {
    "inject": ST_ALL + [ST_MACHINE, ("emulator-2a-lib/src/machine/raw/mod.rs", "c12_raw.rs", "verif_c12r"),
                        ("emulator-2a-lib/src/machine/mod.rs", "c12_machine.rs", "verif_c12m"),
                        ("emulator-2a-lib/src/runner/mod.rs", "c12_runner.rs", "verif_c12")],
    "groups": [{"match": "c12_run_schedule", "flags": ["-Z", "stubbing"]}, {"match": ".*", "flags": []}],
    "functions": ["RunExpectations::verify", "RunnerConfig::run (scheduling loop)", "Machine::new_with_program / apply_configuration (configuration applied after load)", "Machine::new_with_program / trigger_key_interrupt / cpu_reset / trigger_key_clock (as called from run)"],
    "timeout": 900,
    "technique": "function contract on RunExpectations::verify (complete, symbolic expectations and machine) + caller-against-callee-contract check of RunnerConfig::run's schedule loop with abstract edge/interrupt/reset (kani::stub, ghost log), Kani/CBMC",
    "level_text": "Proof for verify: Ok exactly when every stated expectation equals the machine's value, for all 2^3 expectation subsets x values x machine states; the error names the first mismatch with both values. The schedule loop of run is checked against the reference schedule for every behaviour of the callees, BOUNDED to 5 cycles and two interrupt/reset entries each.",
    "level_note": "Trusted: Kani/CBMC, rustc; stubs for AsmParser::parse / Translator::compile (C03/C02's business), Instant::now/elapsed, and the three machine operations (represented by their contracts). NOT COVERED (outside either verifier's reach): structopt argument parsing incl. the three radices (str parsing), the printed report, and the process exit status in main.",
    "bounded": ["c12_run_schedule: max_cycles <= 5, interrupts/resets lists of exactly two entries in 0..=6"],
    "samples": [{"obligation": "C12.V.verify.ok-exactly-when-all-expectations-hold", "text": "verify(result).is_ok() <=> (state none or equal) & (FE none or equal) & (FF none or equal)", "domain": "symbolic expectations x fully symbolic machine"}],
    "trusted": ["kani::stub for AsmParser::parse, Translator::compile, Instant::now/elapsed, RawMachine::trigger_clock_edge / trigger_key_edge_interrupt / cpu_reset in c12_run_schedule"],
    "assumptions": [],
}
