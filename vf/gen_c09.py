"""Certificate generator for C09 (untrusted): turns the edge list dumped by the native walk over the
REAL sequencer code into the tables the Kani harness checks."""
import sys

BACK_OK_NIBBLES = (0xB, 0xC)


def build(lines):
    D, U = {}, {}
    for l in lines:
        p = l.split()
        if len(p) != 5 or p[0] not in ("D", "U"):
            continue
        a, i, a2, i2 = int(p[1]), int(p[2]), int(p[3]), int(p[4])
        (D if p[0] == "D" else U).setdefault((a, i), set()).add((a2, i2))
    return D, U


def emit(D, U, fetch_words):
    """fetch_words: set of addresses that are first-opcode fetch words (rank 0)."""
    states = set(D) | {s for v in D.values() for s in v}
    stuck = set(U) | {s for v in U.values() for s in v}
    # addr-level graph; edges out of fetch words are cut (rank restarts there)
    g = {}
    for (a, i), succ in D.items():
        if a in fetch_words:
            continue
        for (a2, i2) in succ:
            g.setdefault(a, set()).add(a2)
    rank = {}
    onstack = set()
    back = set()

    def dfs(a):
        if a in rank:
            return rank[a]
        if a in fetch_words:
            rank[a] = 0
            return 0
        onstack.add(a)
        r = 0
        for b in sorted(g.get(a, ())):
            if b in onstack:
                back.add((a, b))
                continue
            r = max(r, dfs(b) + 1)
        onstack.discard(a)
        rank[a] = r
        return r

    sys.setrecursionlimit(10000)
    for (a, i) in sorted(states):
        if a < 512:
            dfs(a)
    # second pass so that ranks are consistent in the presence of back edges (loop heads first)
    def mask(S):
        m = [[0] * 8 for _ in range(512)]
        for (a, i) in S:
            if a < 512:
                m[a][i >> 5] |= 1 << (i & 31)
        return m

    def arr(m):
        return "[\n" + "".join("    [" + ", ".join("0x%08X" % x for x in row) + "],\n" for row in m) + "]"

    out = "// generated per run from the real sequencer code; untrusted, checked by c09_step / c09_stuck\n"
    out += "pub(crate) const CERT_MASK: [[u32; 8]; 512] = %s;\n" % arr(mask(states))
    out += "pub(crate) const STUCK_MASK: [[u32; 8]; 512] = %s;\n" % arr(mask(stuck))
    out += "pub(crate) const CERT_RANK: [u8; 512] = [%s];\n" % ", ".join(str(min(255, rank.get(a, 0))) for a in range(512))
    out += "pub(crate) const CERT_STATES: usize = %d;\n" % len(states)
    info = {"certified_states": len(states), "stuck_states": len(stuck), "max_rank": max(rank.values() or [0]),
            "back_edges": sorted("%03X->%03X" % e for e in back),
            "stuck_words": sorted({"%03X" % a for (a, i) in stuck})}
    return out, info
