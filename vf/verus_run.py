"""Verus back end: mechanical extraction of the functions under contract into one file + run.
What the extraction drops is listed in the prelude's header and in the evidence."""
import hashlib
import json
import os
import re
import subprocess
import tempfile
import time


def _match_braces(text, start):
    """index just after the brace matching text[start] == '{' (no braces in strings/comments in the anchors we use)"""
    depth = 0
    i = start
    while i < len(text):
        c = text[i]
        if c == "{":
            depth += 1
        elif c == "}":
            depth -= 1
            if depth == 0:
                return i + 1
        i += 1
    raise ValueError("unbalanced braces")


def extract_c08(repo):
    src = open(os.path.join(repo, "emulator-2a-lib/src/machine/alu.rs")).read()
    m = re.search(r"pub enum AluSelect\s*\{", src)
    if not m:
        raise ValueError("anchor lost: enum AluSelect")
    end = _match_braces(src, m.end() - 1)
    body = src[m.end():end - 1]
    variants = []
    for line in body.splitlines():
        line = line.strip()
        if not line or line.startswith("///") or line.startswith("//") or line.startswith("#["):
            continue
        variants.append(line)
    enum_txt = "pub enum AluSelect {\n" + "\n".join("    " + v for v in variants) + "\n}\n"
    m = re.search(r"pub fn from_input\(input: &AluInput, function: &AluSelect\) -> Self\s*\{", src)
    if not m:
        raise ValueError("anchor lost: fn AluOutput::from_input(&AluInput, &AluSelect) -> Self")
    end = _match_braces(src, m.end() - 1)
    fn_body = src[m.end() - 1:end]
    return enum_txt, fn_body, hashlib.sha256(fn_body.encode()).hexdigest()


def run(pid, cfg, repo, verif):
    out = {"summary": {}, "obligations": 0, "discharged": 0, "cmd": "", "undecided": [], "violations": []}
    if cfg == "lemmas":
        return run_lemmas(verif, out, "lemma_loops.rs", "while rule for MUL and DIV over the per-pass contracts, rank => bounded return, MUL word-count bound (spec-only, no repository code)")
    if cfg == "lemmas_compose":
        return run_lemmas(verif, out, "lemma_compose.rs", "interrupt entry ; register-preserving handler ; RETI restores registers/flags/SP/PC (over the entry and RETI contracts); address counter = concatenation offset; relative offset lands on its target (spec-only, no repository code)")
    if cfg == "lemmas_induct":
        return run_lemmas(verif, out, "lemma_induct.rs", "the 'by induction after every history' step: inductive invariant => invariant of every reachable state and at every call of any history (C13/C14/C05), and single-edge halt absorption => fixpoint of any number of clock edges (C05); abstract state/operation, hypotheses are the shapes of the per-call Kani obligations (spec-only, no repository code)")
    if cfg == "lemmas_history":
        return run_lemmas(verif, out, "lemma_history.rs", "C10 'read back until overwritten' and last-write-wins as one induction over any history of bus operations, from the per-call RAM postcondition/frame clauses C10.W.ram.frame, C10.W.io.ram-untouched, C10.R.pure, C10.I.set.frame, C10.F.* (spec-only, no repository code)")
    if cfg != "c08":
        return out
    t0 = time.time()
    try:
        enum_txt, fn_body, h = extract_c08(repo)
    except ValueError as e:
        out["undecided"].append("verus extraction: %s" % e)
        return out
    prelude = open(os.path.join(verif, "verus", "c08_prelude.rs")).read()
    text = prelude.replace("//@EXTRACTED-ENUM", enum_txt).replace("//@EXTRACTED-BODY", fn_body)
    base = os.environ.get("VERIF_SCRATCH") or os.environ.get("TMPDIR") or "/var/tmp"
    d = tempfile.mkdtemp(prefix="verif-verus.", dir=base)
    try:
        f = os.path.join(d, "c08_alu.rs")
        open(f, "w").write(text)
        cmd = ["verus", f, "--output-json", "--time"]
        r = subprocess.run(cmd, capture_output=True, text=True, timeout=600, cwd=d)
        txt = r.stdout
        js = None
        try:
            js = json.loads(txt[txt.index("{"):])
        except Exception:
            pass
        res = (js or {}).get("verification-results", {})
        verified, errors = res.get("verified", 0), res.get("errors", 0)
        out["cmd"] = "verus <extracted c08_alu.rs> --output-json --time"
        out["summary"] = {"backend": "verus", "functions_verified": verified, "errors": errors,
                          "extracted_body_sha256": h, "wall_s": round(time.time() - t0, 1),
                          "smt_time_ms": ((js or {}).get("times-ms", {}) or {}).get("smt", {}).get("total") if js else None,
                          "dropped_by_extraction": ["enum_from_primitive! wrapper", "derive / cfg_attr attributes", "doc comments", "visibility of struct fields is widened to pub"],
                          "assumed_specifications": ["u8::overflowing_add", "u8::overflowing_shr", "bool -> u8 conversion (vstd)"]}
        if js is None or not res:
            out["undecided"].append("verus produced no result (exit %d): %s" % (r.returncode, (r.stderr or txt)[-600:]))
        elif res.get("success") and errors == 0 and verified > 0:
            out["obligations"] = verified
            out["discharged"] = verified
        else:
            # rejected: either the code changed behaviour or Verus cannot handle a new construct
            msg = (r.stderr or "") + txt
            if re.search(r"postcondition not satisfied|assertion failed", msg):
                out["obligations"] = max(1, verified + errors)
                out["discharged"] = verified
                out["violations"].append(("C08.V.from_input.ensures (Verus)", msg))
            else:
                out["undecided"].append("verus rejected the extracted file for a reason other than a failed obligation: %s" % msg[-800:])
    finally:
        import shutil
        shutil.rmtree(d, ignore_errors=True)
    return out


def run_lemmas(verif, out, fname, what):
    """Spec-only composition lemmas over the contracts (no repository code): while rule for MUL/DIV,
    rank => bounded return, MUL word-count bound."""
    t0 = time.time()
    f = os.path.join(verif, "verus", fname)
    base = os.environ.get("VERIF_SCRATCH") or os.environ.get("TMPDIR") or "/var/tmp"
    d = tempfile.mkdtemp(prefix="verif-verus.", dir=base)
    try:
        r = subprocess.run(["verus", f, "--output-json", "--time"], capture_output=True, text=True, timeout=600, cwd=d)
        txt = r.stdout
        try:
            js = json.loads(txt[txt.index("{"):])
        except Exception:
            js = None
        res = (js or {}).get("verification-results", {})
        verified, errors = res.get("verified", 0), res.get("errors", 0)
        out["cmd"] = "verus verus/%s --output-json --time" % fname
        out["summary"] = {"backend": "verus", "file": "verus/" + fname, "lemmas_verified": verified, "errors": errors,
                          "wall_s": round(time.time() - t0, 1), "what": what}
        if res.get("success") and errors == 0 and verified > 0:
            out["obligations"] = verified
            out["discharged"] = verified
        else:
            out["undecided"].append("verus lemma file not accepted: %s" % ((r.stderr or txt)[-600:]))
    finally:
        import shutil
        shutil.rmtree(d, ignore_errors=True)
    return out
