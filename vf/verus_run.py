def run(pid, cfg, repo, verif):
    return {"summary": {}, "obligations": 0, "discharged": 0, "cmd": "", "undecided": [], "violations": []}
