#!/usr/bin/env python3
"""Driver: stage /repo's working tree, inject contract modules (add-only), discharge the
obligations with Kani/CBMC (and Verus where configured), replay counterexamples natively on the real
code, write evidence.  Decides nothing itself: a verdict is always the verifier's."""
import hashlib
import json
import os
import re
import shutil
import subprocess
import sys
import tempfile
import time

HERE = os.path.dirname(os.path.abspath(__file__))
VERIF = os.path.dirname(HERE)
REPO = os.environ.get("VERIF_REPO", "/repo")
CONTRACTS = os.path.join(VERIF, "contracts")
LIB = "emulator-2a-lib"

sys.path.insert(0, HERE)
import props as P  # noqa: E402
import verus_run  # noqa: E402

ENV = dict(os.environ)
ENV["CARGO_NET_OFFLINE"] = "true"
ENV.setdefault("CARGO_TERM_COLOR", "never")


def log(*a):
    print(*a, flush=True)


def sha256(path):
    h = hashlib.sha256()
    with open(path, "rb") as f:
        h.update(f.read())
    return h.hexdigest()


# --------------------------------------------------------------------------------------- staging
class Stage:
    def __init__(self, prop_ids):
        base = os.environ.get("VERIF_SCRATCH") or os.environ.get("TMPDIR") or "/var/tmp"
        os.makedirs(base, exist_ok=True)
        self.dir = tempfile.mkdtemp(prefix="verif-stage.", dir=base)
        self.prop_ids = prop_ids
        self.injected = []  # (repo file, contract file, module)
        self.hashes = {}

    def cleanup(self):
        if os.environ.get("VERIF_KEEP_STAGE"):
            log("[stage] kept", self.dir)
            return
        shutil.rmtree(self.dir, ignore_errors=True)

    def build(self):
        d = self.dir
        shutil.copy(os.path.join(REPO, "Cargo.lock"), os.path.join(d, "Cargo.lock"))
        shutil.copytree(
            os.path.join(REPO, LIB), os.path.join(d, LIB),
            ignore=shutil.ignore_patterns("target", "*.orig", "*.rej"),
        )
        with open(os.path.join(d, "Cargo.toml"), "w") as f:
            f.write('[workspace]\nmembers = ["%s", "verif-replay"]\n' % LIB)
        # staging edit 1: compile logging out with the log crate's own feature
        mp = os.path.join(d, LIB, "Cargo.toml")
        s = open(mp).read()
        s2, n = re.subn(r'(?m)^log\s*=\s*"([^"]+)"\s*$',
                        r'log = { version = "\1", features = ["max_level_off"] }', s)
        if n != 1:
            raise Undecided("staging: cannot find the `log` dependency line in %s/Cargo.toml" % LIB)
        # benches need dev-dependencies only; drop the explicit [[bench]] so no bench target is resolved
        open(mp, "w").write(s2)
        # lib.rs: shim
        self._append(os.path.join(LIB, "src/lib.rs"),
                     '#[cfg(any(kani, verif_replay))]\n#[path = "%s"]\n#[macro_use]\npub mod verif_shim;\n'
                     % os.path.join(CONTRACTS, "shim.rs"))
        entries = []
        for pid in self.prop_ids:
            for (repo_file, contract, mod) in P.PROPS[pid].get("inject", []):
                key = (repo_file, mod)
                if key in [(a, c) for (a, b, c) in self.injected]:
                    continue
                src = os.path.join(REPO, repo_file)
                if not os.path.exists(src):
                    raise Undecided("anchor file lost: %s" % repo_file)
                self.hashes[repo_file] = sha256(src)
                self._append(repo_file,
                             '#[cfg(any(kani, verif_replay))]\n#[path = "%s"]\npub(crate) mod %s;\n'
                             % (os.path.join(CONTRACTS, contract), mod))
                self.injected.append((repo_file, contract, mod))
                entries += re.findall(r"replay_table!\(\s*(\w+)\s*;", open(os.path.join(CONTRACTS, contract)).read())
        # generated certificates (stubs first; real ones are produced by pregen steps)
        self.gen = os.path.join(d, "gen")
        shutil.copytree(os.path.join(CONTRACTS, "gen_stub"), self.gen)
        ENV["VERIF_GEN_DIR"] = self.gen
        # replay crate (native, repository toolchain, no dev-dependencies)
        rd = os.path.join(d, "verif-replay")
        os.makedirs(os.path.join(rd, "src"))
        with open(os.path.join(rd, "Cargo.toml"), "w") as f:
            f.write('[package]\nname = "verif-replay"\nversion = "0.0.0"\nedition = "2018"\n\n'
                    '[dependencies]\nemulator-2a-lib = { path = "../%s" }\n' % LIB)
        with open(os.path.join(rd, "src/main.rs"), "w") as f:
            f.write("extern crate emulator_2a_lib;\n#[cfg(verif_replay)]\nextern \"Rust\" {\n")
            for e in entries:
                f.write("    fn %s(name: &str, vals: Vec<Vec<u8>>) -> i32;\n" % e)
            f.write("}\n#[cfg(verif_replay)]\nfn main() {\n"
                    "    let a: Vec<String> = std::env::args().collect();\n"
                    "    let text = std::fs::read_to_string(&a[3]).expect(\"values file\");\n"
                    "    let vals: Vec<Vec<u8>> = text.lines().filter(|l| !l.trim().is_empty() || true)\n"
                    "        .map(|l| l.split(',').filter(|t| !t.trim().is_empty()).map(|t| t.trim().parse::<u8>().unwrap()).collect()).collect();\n"
                    "    let rc = match a[1].as_str() {\n")
            for e in entries:
                f.write("        \"%s\" => unsafe { %s(&a[2], vals) },\n" % (e, e))
            f.write("        _ => 3,\n    };\n    std::process::exit(rc);\n}\n"
                    "#[cfg(not(verif_replay))]\nfn main() {}\n")
        # staging edit 2: proc-macro2 bump in the *staged* lock file (build-time proc-macro dependency only)
        r = subprocess.run(["cargo", "update", "-p", "proc-macro2@1.0.56", "--precise", "1.0.106", "--offline"],
                           cwd=d, env=ENV, capture_output=True, text=True)
        if r.returncode != 0:
            # already at another version: leave as is, compile errors are reported as undecided
            log("[stage] note: proc-macro2 bump skipped:", r.stderr.strip().splitlines()[-1:] )

    def _append(self, rel, text):
        p = os.path.join(self.dir, rel)
        with open(p, "rb") as f:
            body = f.read()
        with open(p, "wb") as f:
            f.write(body)
            if not body.endswith(b"\n"):
                f.write(b"\n")
            f.write(text.encode())


class Undecided(Exception):
    pass


# ------------------------------------------------------------------------------------------ kani
RE_CHECKING = re.compile(r"^(?:Thread (\d+): )?Checking harness ([\w:]+)\.\.\.")
RE_THREAD = re.compile(r"^Thread (\d+):\s*$")


def harness_table(pid):
    """harness name -> (module path inside the crate, replay entry symbol)"""
    out = {}
    for (repo_file, contract, mod) in P.PROPS[pid]["inject"]:
        txt = open(os.path.join(CONTRACTS, contract)).read()
        rel = repo_file[len(LIB) + len("/src/"):]
        rel = re.sub(r"(/mod)?\.rs$", "", rel)
        prefix = [x for x in rel.split("/") if x and x != "lib"] + [mod]
        for m in re.finditer(r"replay_table!\(\s*(\w+)\s*;([^)]*)\)", txt):
            for h in m.group(2).split(","):
                h = h.strip()
                if h:
                    out[h] = ("::".join(prefix + [h]), m.group(1))
    return out


def harness_path(pid, name):
    t = harness_table(pid)
    if name not in t:
        raise Undecided("harness %s not found in any replay_table of %s" % (name, pid))
    return t[name][0]


def list_harnesses(pid):
    return [(h, e) for h, (p, e) in harness_table(pid).items()]


def start_memory_guard(limit_kb=None):
    """Kills any cbmc process whose resident set exceeds the limit (default 9 GB): such a harness is
    reported as 'error' (undecided), it must never take the machine down."""
    import threading
    limit_kb = limit_kb or int(os.environ.get("VERIF_CBMC_RSS_KB", str(9 * 1024 * 1024)))
    stop = threading.Event()

    def loop():
        while not stop.wait(3.0):
            try:
                out = subprocess.run(["ps", "-eo", "pid,rss,comm"], capture_output=True, text=True).stdout
                for line in out.splitlines()[1:]:
                    parts = line.split()
                    if len(parts) >= 3 and parts[2] == "cbmc" and int(parts[1]) > limit_kb:
                        os.kill(int(parts[0]), 9)
            except Exception:
                pass

    t = threading.Thread(target=loop, daemon=True)
    t.start()
    return stop.set


def run_kani(stage, pid, names, extra_flags, timeout_s, jobs, playback=False):
    """Runs one cargo-kani invocation over `names`; returns {name: result}."""
    paths = {harness_path(pid, n): n for n in names}
    cmd = ["cargo", "kani", "-p", LIB, "--exact", "--output-format", "terse",
           "-Z", "unstable-options", "--no-assertion-reach-checks", "--harness-timeout", "%ds" % timeout_s, "-j", str(jobs)]
    tail = []
    if "--cbmc-args" in extra_flags:   # swallows everything after it: must come last
        i = extra_flags.index("--cbmc-args")
        extra_flags, tail = extra_flags[:i], extra_flags[i:]
    cmd += extra_flags
    if playback:
        cmd += ["-Z", "concrete-playback", "--concrete-playback=print"]
    for p in paths:
        cmd += ["--harness", p]
    cmd += tail
    t0 = time.time()
    stop_guard = start_memory_guard()
    try:
        r = subprocess.run(cmd, cwd=os.path.join(stage.dir, LIB), env=ENV, capture_output=True, text=True,
                           timeout=timeout_s * (1 + len(names) // max(1, jobs)) + 1200)
        out = r.stdout + "\n" + r.stderr
    except subprocess.TimeoutExpired as e:
        out = (e.stdout or b"").decode(errors="replace") + "\n" + (e.stderr or b"").decode(errors="replace")
        out += "\n[driver] overall timeout\n"
    finally:
        stop_guard()
    wall = time.time() - t0
    res = {n: {"status": "missing", "checks": 0, "failed": 0, "undetermined": 0, "failed_checks": [],
               "covers_sat": 0, "covers_total": 0, "time_s": None, "path": p} for p, n in paths.items()}
    if re.search(r"(?m)^error(\[E\d+\])?:", out) and "Checking harness" not in out:
        for v in res.values():
            v["status"] = "compile_error"
        return res, out, wall, " ".join(cmd)
    # split the output into per-harness blocks
    cur_by_thread = {}
    blocks = {}
    thread = None
    for line in out.splitlines():
        m = RE_CHECKING.match(line)
        if m:
            t = m.group(1) or "0"
            cur_by_thread[t] = m.group(2)
            blocks.setdefault(m.group(2), [])
            thread = t
            continue
        m = RE_THREAD.match(line)
        if m:
            thread = m.group(1)
            continue
        if thread is not None and thread in cur_by_thread:
            blocks[cur_by_thread[thread]].append(line)
    for p, lines in blocks.items():
        if p not in paths:
            continue
        v = res[paths[p]]
        txt = "\n".join(lines)
        m = re.search(r"\*\* (\d+) of (\d+) failed(?: \(([^)]*)\))?", txt)
        if m:
            v["failed"] = int(m.group(1))
            v["checks"] = int(m.group(2))
            mu = re.search(r"(\d+) undetermined", m.group(3) or "")
            if mu:
                v["undetermined"] = int(mu.group(1))
        m = re.search(r"\*\* (\d+) of (\d+) cover properties satisfied", txt)
        if m:
            v["covers_sat"], v["covers_total"] = int(m.group(1)), int(m.group(2))
        for m in re.finditer(r'Failed Checks: (.*)\n\s*File: "([^"]*)", line (\d+), in (\S+)', txt):
            desc = m.group(1).strip()
            if desc.startswith('"') and desc.endswith('"'):
                desc = desc[1:-1]
            v["failed_checks"].append({"desc": desc, "file": m.group(2), "line": int(m.group(3)), "fn": m.group(4)})
        m = re.search(r"Verification Time: ([\d.]+)s", txt)
        if m:
            v["time_s"] = float(m.group(1))
        if "VERIFICATION:- SUCCESSFUL" in txt:
            v["status"] = "ok"
        elif "VERIFICATION:- FAILED" in txt:
            v["status"] = "failed"
        elif re.search(r"timed out|TIMEOUT|Timeout", txt):
            v["status"] = "timeout"
        else:
            v["status"] = "error"
        if "CBMC failed" in txt or "out of memory" in txt.lower():
            v["status"] = "error"
        if v["status"] == "failed" and not v["failed_checks"]:
            # e.g. unwinding assertion or unsupported construct only
            v["failed_checks"].append({"desc": "(no named check: see verifier output)", "file": "", "line": 0, "fn": ""})
        v["raw"] = txt[-4000:]
        # concrete playback values
        pb = []
        for m in re.finditer(r"/// Check for `(\w+)`: \"([^\n]*)\"[ \t]*\n\s*#\[test\]\nfn \w+\(\) \{\n\s*let concrete_vals: Vec<Vec<u8>> = vec!\[(.*?)\n\s*\];", txt, re.S):
            kind, desc, body = m.group(1), m.group(2).strip('"'), m.group(3)
            vals = [[int(x) for x in mm.group(1).replace(" ", "").split(",") if x != ""] for mm in re.finditer(r"vec!\[([^\]]*)\]", body)]
            pb.append({"kind": kind, "desc": desc, "values": vals})
        v["playback"] = pb
    return res, out, wall, " ".join(cmd)


def native_run(stage, entry, name):
    """Build the native binary and run a generator entry (no values); returns stdout or raises."""
    env = dict(ENV)
    env["RUSTFLAGS"] = "--cfg verif_replay"
    tdir = os.path.join(stage.dir, "target-replay")
    b = subprocess.run(["cargo", "build", "--offline", "-p", "verif-replay", "--target-dir", tdir],
                       cwd=stage.dir, env=env, capture_output=True, text=True)
    if b.returncode != 0:
        errs = "\n".join(l for l in b.stderr.splitlines() if l.startswith("error") or l.strip().startswith("-->"))
        raise Undecided("native build of the staged crate failed (certificate generation):\n" + errs[:3000])
    vf = os.path.join(stage.dir, "empty.txt")
    open(vf, "w").close()
    r = subprocess.run([os.path.join(tdir, "debug", "verif-replay"), entry, name, vf], capture_output=True, text=True, timeout=600)
    return r.stdout


def native_replay(stage, entry, name, values):
    """Build the staged crate natively (repository toolchain, --cfg verif_replay) and run one harness
    on concrete values.  Returns dict(reproduced, violated, panic, raw)."""
    env = dict(ENV)
    env["RUSTFLAGS"] = "--cfg verif_replay"
    tdir = os.path.join(stage.dir, "target-replay")
    b = subprocess.run(["cargo", "build", "--offline", "-p", "verif-replay", "--target-dir", tdir],
                       cwd=stage.dir, env=env, capture_output=True, text=True)
    if b.returncode != 0:
        return {"reproduced": False, "violated": [], "panic": None, "raw": "native build failed:\n" + b.stderr[-3000:]}
    vf = os.path.join(stage.dir, "values.txt")
    with open(vf, "w") as f:
        for v in values:
            f.write(",".join(str(x) for x in v) + "\n")
    try:
        r = subprocess.run([os.path.join(tdir, "debug", "verif-replay"), entry, name, vf],
                           capture_output=True, text=True, timeout=20)
        out = r.stdout + r.stderr
    except subprocess.TimeoutExpired:
        return {"reproduced": True, "violated": [], "panic": "native replay did not terminate within 20 s", "raw": "timeout"}
    violated = re.findall(r"(?m)^REPLAY-VIOLATED (.*)$", out)
    mp = re.search(r"(?m)^REPLAY-PANIC (.*)$", out)
    ok_hdr = re.search(r"REPLAY underflow=false assume_failed=false", out) is not None
    return {"reproduced": ok_hdr and (bool(violated) or mp is not None), "violated": violated,
            "panic": mp.group(1) if mp else None, "raw": out[-3000:]}


def assumption_scan(pid, cfg):
    """Mechanical scan of the contract / lemma sources this check uses for everything that is assumed
    rather than proved: stubs, assumption counts, Verus trusted specs."""
    out = {"kani_stubs": [], "vassume_calls": 0, "verus_assume_specification": [], "verus_uninterp_or_admit": []}
    for (_, contract, _) in cfg.get("inject", []):
        txt = open(os.path.join(CONTRACTS, contract)).read()
        out["vassume_calls"] += len(re.findall(r"\bvassume\(|kani::assume\(", txt))
        for m in re.finditer(r"kani::stub\(\s*([\w:]+)\s*,\s*([\w:]+)\s*\)", txt):
            e = "%s -> %s (%s)" % (m.group(1), m.group(2).split("::")[-1], contract)
            if e not in out["kani_stubs"]:
                out["kani_stubs"].append(e)
    v = cfg.get("verus")
    files = {"c08": ["c08_prelude.rs"], "lemmas": ["lemma_loops.rs"], "lemmas_compose": ["lemma_compose.rs"], "lemmas_history": ["lemma_history.rs"], "lemmas_induct": ["lemma_induct.rs"]}.get(v, [])
    for f in files:
        txt = open(os.path.join(VERIF, "verus", f)).read()
        out["verus_assume_specification"] += ["%s (%s)" % (x.strip(), f) for x in re.findall(r"assume_specification(?:<[^>]*>)?\[([^\]]*)\]", txt)]
        out["verus_uninterp_or_admit"] += ["%s (%s)" % (x, f) for x in re.findall(r"\b(admit\(\)|external_body|uninterp spec fn \w+)", txt)]
    return out


# ------------------------------------------------------------------------------- known findings
def load_known():
    p = os.path.join(VERIF, "known_findings.json")
    if not os.path.exists(p):
        return {"findings": [], "fixed": []}
    return json.load(open(p))


def known_match(known, pid, harness, desc):
    for f in known.get("findings", []):
        if f["property"] == pid and f["harness"] == harness and f["clause"] == desc:
            return f
    return None


# ----------------------------------------------------------------------------------------- check
def select(pid, tier, seed):
    cfg = P.PROPS[pid]
    allh = [h for (h, e) in list_harnesses(pid)]
    sel = cfg.get("select")
    if sel:
        return sel(allh, tier, seed)
    if tier == "quick":
        return [h for h in allh if "_x_" not in h]
    return allh


def check(pid, tier, seed):
    t0 = time.time()
    cfg = P.PROPS[pid]
    known = load_known()
    evid = {
        "property_id": pid, "tier": tier, "seed": seed, "level": "proof",
        "coverage": {"obligations": 0, "discharged": 0, "checker_cmd": "", "trusted_base": [], "samples": []},
        "assumptions": [], "wall_s": 0.0, "violations": 0,
    }
    cov = evid["coverage"]
    violations = []      # (harness, clause, replay_path, has_input)
    undecided = []
    known_lines = []
    stage = Stage([pid])
    try:
        stage.build()
        if cfg.get("pregen"):
            cov["certificates"] = cfg["pregen"](stage, native_run)
        names = [n for n in select(pid, tier, seed) if not n.startswith("gen_")]
        if os.environ.get("VERIF_ONLY"):  # development aid: restrict to matching harnesses (evidence then marks it)
            names = [n for n in names if re.search(os.environ["VERIF_ONLY"], n)]
            cov["restricted_to"] = os.environ["VERIF_ONLY"]
        entry_of = dict(list_harnesses(pid))
        canaries = [n for n in names if n.endswith("_canary")]
        jobs = int(os.environ.get("VERIF_JOBS", "16"))
        groups = cfg.get("groups") or [{"match": ".*", "flags": []}]
        results = {}
        cmds = []
        remaining = list(names)
        for g in groups:
            gn = [n for n in remaining if re.search(g["match"], n)]
            remaining = [n for n in remaining if n not in gn]
            if not gn:
                continue
            res, out, wall, cmd = run_kani(stage, pid, gn, g.get("flags", []), g.get("timeout", cfg.get("timeout", 600)), jobs)
            cmds.append(cmd)
            results.update(res)
            if any(v["status"] == "compile_error" for v in res.values()):
                errs = "\n".join(l for l in out.splitlines() if l.startswith("error") or l.startswith("  -->"))[:3000]
                raise Undecided("staged crate does not compile (anchor lost or signature changed):\n" + errs)
        # one retry, with few parallel jobs, for harnesses that produced no verdict (solver killed by the
        # memory guard or timed out under load): a transient resource problem must not turn into exit 2
        flaky = [n for n in names if results.get(n, {}).get("status") in ("error", "timeout", "missing")]
        if flaky and len(flaky) <= 12:
            for g in groups:
                gn = [n for n in flaky if re.search(g["match"], n)]
                flaky = [n for n in flaky if n not in gn]
                if gn:
                    res, out, wall, cmd = run_kani(stage, pid, gn, list(g.get("flags", [])), g.get("timeout", cfg.get("timeout", 600)), min(4, jobs))
                    for n, v in res.items():
                        v["retried"] = True
                    results.update(res)
                    cmds.append(cmd)
        cov["checker_cmd"] = " ; ".join(cmds)
        # counterexamples for every refuted non-canary harness with a clause that is not a recorded
        # finding: ONE parallel playback run per flag group
        need_pb = []
        for n in names:
            v = results.get(n)
            if not v or v["status"] != "failed" or n in canaries:
                continue
            if any(not known_match(known, pid, n, fc["desc"]) for fc in v["failed_checks"]):
                need_pb.append(n)
        playback_results = {}
        if need_pb:
            # --concrete-playback is incompatible with --jobs > 1: several single-harness runs side by side
            from concurrent.futures import ThreadPoolExecutor

            def one(n):
                fl = [f for g in groups if re.search(g["match"], n) for f in g.get("flags", [])][:]
                for g in groups:
                    if re.search(g["match"], n):
                        fl = list(g.get("flags", []))
                        break
                r1, _, _, _ = run_kani(stage, pid, [n], fl, cfg.get("timeout", 600) * 2, 1, playback=True)
                return r1
            with ThreadPoolExecutor(max_workers=min(8, len(need_pb))) as ex:
                for r1 in ex.map(one, need_pb[:24]):
                    playback_results.update(r1)
        harness_rows = []
        for n in names:
            v = results.get(n) or {"status": "missing", "checks": 0, "failed": 0, "undetermined": 0, "failed_checks": [], "covers_sat": 0, "covers_total": 0, "time_s": None}
            row = {"harness": n, "backend": "kani/cbmc", "status": v["status"], "checks": v["checks"], "failed": v["failed"],
                   "covers": "%d/%d" % (v["covers_sat"], v["covers_total"]), "solver_s": v["time_s"]}
            harness_rows.append(row)
            if n in canaries:
                # vacuity guard: must be refuted, and by the CANARY clause
                if v["status"] != "failed" or not any(fc["desc"] == "CANARY" for fc in v["failed_checks"]):
                    undecided.append("canary %s was not refuted (status %s): the harness shape proves nothing" % (n, v["status"]))
                row["canary_refuted"] = v["status"] == "failed"
                continue
            cov["obligations"] += v["checks"]
            if v["status"] == "ok":
                cov["discharged"] += v["checks"]
                if v["covers_total"] and v["covers_sat"] < v["covers_total"]:
                    undecided.append("harness %s: only %d of %d covers satisfiable (vacuous precondition?)" % (n, v["covers_sat"], v["covers_total"]))
                if v["checks"] == 0:
                    undecided.append("harness %s generated no obligations" % n)
                continue
            if v["status"] != "failed":
                undecided.append("harness %s: %s" % (n, v["status"]))
                cov["obligations"] += 1 if v["checks"] == 0 else 0
                continue
            # triage the refuted obligations
            new = []
            for fc in v["failed_checks"]:
                kf = known_match(known, pid, n, fc["desc"])
                if kf:
                    known_lines.append("KNOWN-FINDING: property=%s %s [%s / %s]" % (pid, kf["what"], n, fc["desc"]))
                else:
                    new.append(fc)
            if not new:
                # every refuted obligation of this harness is a recorded finding: they are reported as
                # KNOWN-FINDING and are not part of the obligations this run claims
                cov["obligations"] -= v["failed"] + v["undetermined"]
                cov["discharged"] += v["checks"] - v["failed"] - v["undetermined"]
                cov["known_finding_obligations"] = cov.get("known_finding_obligations", 0) + v["failed"]
                continue
            cov["discharged"] += v["checks"] - v["failed"] - v["undetermined"]
            if all(re.search(r"unwinding assertion", fc["desc"]) for fc in new) and not cfg.get("unwind_is_clause"):
                undecided.append("harness %s: unwinding assertion failed (bound too small), not a refutation" % n)
                continue
            # counterexample (from the batched playback run) + native replay
            pres = playback_results
            pv = pres.get(n, {})
            for fc in new:
                # candidates: the test Kani printed for this obligation first; Kani de-duplicates tests by
                # their values, so the failing input may be printed under another check's name -> try all,
                # the native run on the real code decides.
                allpb = pv.get("playback", [])
                cands = [x for x in allpb if x["desc"] == fc["desc"]] + \
                        [x for x in allpb if x["desc"] != fc["desc"] and x["kind"] != "cover"] + \
                        [x for x in allpb if x["desc"] != fc["desc"] and x["kind"] == "cover"]
                rp = {"property": pid, "harness": n, "harness_path": v.get("path"), "entry": entry_of.get(n),
                      "obligation": fc["desc"], "location": "%s:%s" % (fc["file"], fc["line"]),
                      "verifier": "kani/cbmc", "verifier_output": v.get("raw", "")[-2500:], "values": None, "native": None}
                has_input = False
                for cand in cands[:6]:
                    nat = native_replay(stage, entry_of.get(n), n, cand["values"])
                    if rp["values"] is None:
                        rp["values"], rp["native"] = cand["values"], nat
                    if nat["reproduced"] and (fc["desc"] in nat["violated"] or nat["panic"] or not fc["desc"].startswith("C")):
                        rp["values"], rp["native"] = cand["values"], nat
                        has_input = True
                        break
                os.makedirs(os.path.join(VERIF, "evidence", "replays"), exist_ok=True)
                path = os.path.join(VERIF, "evidence", "replays", "%s-%s-%s.json" % (pid, n, re.sub(r"\W+", "_", fc["desc"])[:60]))
                json.dump(rp, open(path, "w"), indent=1)
                violations.append((n, fc["desc"], path, has_input))
        cov["harnesses"] = harness_rows
        # Verus part
        if cfg.get("verus"):
            vr = verus_run.run(pid, cfg["verus"], REPO, VERIF)
            cov["verus"] = vr["summary"]
            cov["obligations"] += vr["obligations"]
            cov["discharged"] += vr["discharged"]
            cov["checker_cmd"] += " ; " + vr["cmd"]
            if vr["undecided"]:
                # Verus could not process this tree (e.g. the function now calls a helper the extraction does
                # not carry): the same postcondition is decided by the Kani harnesses, so this is recorded,
                # not fatal
                cov["verus_skipped"] = vr["undecided"]
            for (ob, text) in vr["violations"]:
                # a Verus rejection has no input; if a Kani twin already produced one, that one is reported
                if violations:
                    continue
                os.makedirs(os.path.join(VERIF, "evidence", "replays"), exist_ok=True)
                path = os.path.join(VERIF, "evidence", "replays", "%s-verus-%s.json" % (pid, re.sub(r"\W+", "_", ob)[:60]))
                json.dump({"property": pid, "obligation": ob, "verifier": "verus", "verifier_output": text[-4000:], "values": None}, open(path, "w"), indent=1)
                violations.append(("verus", ob, path, False))
        cov["assumption_scan"] = assumption_scan(pid, cfg)
        cov["functions_under_contract"] = cfg.get("functions", [])
        cov["source_sha256"] = stage.hashes
        cov["trusted_base"] = P.COMMON_TRUSTED + cfg.get("trusted", [])
        cov["bounded_parts"] = cfg.get("bounded", [])
        cov["samples"] = cfg.get("samples", []) + [
            {"harness": r["harness"], "status": r["status"], "cbmc_checks": r["checks"], "solver_s": r["solver_s"]}
            for r in harness_rows[:6]]
        cov["undecided"] = undecided
        evid["assumptions"] = P.COMMON_ASSUMPTIONS + cfg.get("assumptions", [])
    except Undecided as e:
        undecided.append(str(e))
    finally:
        stage.cleanup()
    evid["wall_s"] = round(time.time() - t0, 1)
    evid["violations"] = len(violations)
    cov["known_findings_reported"] = known_lines
    if cov["obligations"] == 0:
        cov["obligations"] = 1  # schema minimum; nothing was discharged
    if cov["discharged"] == 0:
        cov["discharged_none"] = True
    os.makedirs(os.path.join(VERIF, "evidence"), exist_ok=True)
    ev = dict(evid)
    if cov["discharged"] == 0:
        ev["coverage"] = dict(cov)
        ev["coverage"]["discharged"] = 0
    json.dump(ev, open(os.path.join(VERIF, "evidence", pid + ".json"), "w"), indent=1)
    for l in known_lines:
        log(l)
    if violations:
        for (n, desc, path, has_input) in violations:
            log("VIOLATION property=%s replay=%s%s" % (pid, path, "" if has_input else " no-failing-input-found"))
            log("  obligation %s in %s" % (desc, n))
        return 1
    if undecided:
        log("UNDECIDED property=%s (exit 2, not an alarm):" % pid)
        for u in undecided:
            log("  - " + u)
        return 2
    log("OK property=%s tier=%s obligations=%d discharged=%d wall=%.0fs" % (pid, tier, cov["obligations"], cov["discharged"], evid["wall_s"]))
    return 0


def replay(path):
    rp = json.load(open(path))
    pid = rp["property"]
    log("replay of %s obligation %s (harness %s)" % (pid, rp["obligation"], rp.get("harness")))
    if not rp.get("values"):
        log("no concrete input recorded (no-failing-input-found); verifier output follows")
        log(rp.get("verifier_output", ""))
        return 1
    stage = Stage([pid])
    try:
        stage.build()
        if P.PROPS[pid].get("pregen"):
            P.PROPS[pid]["pregen"](stage, native_run)
        nat = native_replay(stage, rp["entry"], rp["harness"], rp["values"])
    finally:
        stage.cleanup()
    log(nat["raw"])
    if nat["reproduced"]:
        log("REPRODUCED on the real code: violated=%s panic=%s" % (nat["violated"], nat["panic"]))
        return 1
    log("not reproduced on the current tree")
    return 0


def main():
    a = sys.argv[1:]
    if a and a[0] == "--replay":
        sys.exit(replay(a[1]))
    tier = os.environ.get("VERIF_TIER", "quick")
    if "--tier" in a:
        i = a.index("--tier")
        tier = a[i + 1]
        del a[i:i + 2]
    seed = int(os.environ.get("VERIF_SEED", "0") or 0)
    if not a:
        log("usage: check <property id>|all [--tier quick|thorough] | --replay <file>")
        sys.exit(2)
    ids = sorted(P.PROPS) if a[0] == "all" else a
    rc = 0
    for pid in ids:
        if pid not in P.PROPS:
            log("unknown property", pid)
            sys.exit(2)
        r = check(pid, tier, seed)
        rc = max(rc, r) if r != 1 else 1 if rc != 1 else 1
        if r == 1:
            rc = 1
    sys.exit(rc)


if __name__ == "__main__":
    main()
