// C08 (Verus back end) — fixed prelude.  The items between the EXTRACTED markers are pasted
// mechanically from /repo/emulator-2a-lib/src/machine/alu.rs on every run (vf/verus_run.py):
//   * `enum AluSelect`  (variant list of the enum_from_primitive! block; dropped: the macro wrapper,
//     derives, cfg_attr, doc comments)
//   * the body of `AluOutput::from_input` (verbatim, between its outermost braces)
// The struct declarations, the signature with its `ensures`, the trusted std specs and the reference
// table below are this file's.
use vstd::prelude::*;

verus! {

// --- trusted specifications of the std operations the body uses (assumed, listed in evidence) ---
pub assume_specification[ u8::overflowing_add ](a: u8, b: u8) -> (r: (u8, bool))
    ensures
        r.0 as int == (a as int + b as int) % 256,
        r.1 == (a as int + b as int > 255),
;

pub assume_specification[ u8::overflowing_shr ](a: u8, n: u32) -> (r: (u8, bool))
    ensures
        n < 8 ==> r.0 == a >> n && !r.1,
;

pub assume_specification[ <u8 as core::convert::From<bool>>::from ](b: bool) -> (r: u8)
    ensures
        r == (if b { 1u8 } else { 0u8 }),
;

pub struct AluInput {
    pub input_a: u8,
    pub input_b: u8,
    pub carry_in: bool,
}

pub struct AluOutput {
    pub output: u8,
    pub carry_out: bool,
    pub zero_out: bool,
    pub negative_out: bool,
}

//@EXTRACTED-ENUM

pub open spec fn b2i(b: bool) -> int {
    if b { 1 } else { 0 }
}

/// The documented function table (result, carry-out); arithmetic rows in mathematical integers,
/// bit rows in bit operations.
pub open spec fn ref_out(f: AluSelect, a: u8, b: u8, c: bool) -> u8 {
    match f {
        AluSelect::ADDH => ((a as int + b as int) % 256) as u8,
        AluSelect::A => a,
        AluSelect::NOR => !(a | b),
        AluSelect::ZERO => 0u8,
        AluSelect::ADD => ((a as int + b as int) % 256) as u8,
        AluSelect::ADDS => ((a as int + b as int + 1) % 256) as u8,
        AluSelect::ADC => ((a as int + b as int + b2i(c)) % 256) as u8,
        AluSelect::ADCS => ((a as int + b as int + b2i(!c)) % 256) as u8,
        AluSelect::LSR => a >> 1u8,
        AluSelect::RR => (a >> 1u8) | ((a & 1u8) << 7u8),
        AluSelect::RRC => (a >> 1u8) | (((if c { 1u8 } else { 0u8 })) << 7u8),
        AluSelect::ASR => (a >> 1u8) | (a & 0x80u8),
        AluSelect::B => b,
        AluSelect::SETC => b,
        AluSelect::BH => b,
        AluSelect::INVC => b,
    }
}

pub open spec fn ref_carry(f: AluSelect, a: u8, b: u8, c: bool) -> bool {
    match f {
        AluSelect::ADDH => c || a as int + b as int > 255,
        AluSelect::A => false,
        AluSelect::NOR => false,
        AluSelect::ZERO => false,
        AluSelect::ADD => a as int + b as int > 255,
        AluSelect::ADDS => !(a as int + b as int + 1 > 255),
        AluSelect::ADC => a as int + b as int + b2i(c) > 255,
        AluSelect::ADCS => !(a as int + b as int + b2i(!c) > 255),
        AluSelect::LSR => (a & 1u8) != 0u8,
        AluSelect::RR => (a & 1u8) != 0u8,
        AluSelect::RRC => (a & 1u8) != 0u8,
        AluSelect::ASR => (a & 1u8) != 0u8,
        AluSelect::B => false,
        AluSelect::SETC => true,
        AluSelect::BH => c,
        AluSelect::INVC => !c,
    }
}

impl AluOutput {
    pub fn from_input(input: &AluInput, function: &AluSelect) -> (r: Self)
        ensures
            r.output == ref_out(*function, input.input_a, input.input_b, input.carry_in),
            r.carry_out == ref_carry(*function, input.input_a, input.input_b, input.carry_in),
            r.zero_out == (r.output == 0u8),
            r.negative_out == (r.output & 0x80u8 != 0u8),
    //@EXTRACTED-BODY
}

} // verus!

fn main() {}
