// Composition lemmas over the per-call contracts of C04 and C02 (no repository code in here).
use vstd::prelude::*;

verus! {

// ------------------------------------------------------------------ C04: interrupt transparency
// The view of C01/C04: registers, flag register, SP, PC and memory (addresses are bytes).
pub struct View {
    pub r: Seq<int>,          // R0..R2
    pub pc: int,
    pub fr: int,
    pub sp: int,
    pub mem: Map<int, int>,
}

pub open spec fn wrap(a: int) -> int {
    a % 256
}

/// I.entry (C04.I.entry.view…): push FR, push PC (address of the next instruction), IE off, PC = 2.
pub open spec fn entry(v: View) -> View {
    let sp1 = wrap(v.sp - 1 + 256);
    let sp2 = wrap(v.sp - 2 + 256);
    View { r: v.r, pc: 2, fr: v.fr % 8, sp: sp2, mem: v.mem.insert(sp1, v.fr).insert(sp2, v.pc) }
}

/// I.reti (C01.RETI.view): pop PC, pop FR.
pub open spec fn reti(v: View) -> View {
    View { r: v.r, pc: v.mem[v.sp], fr: v.mem[wrap(v.sp + 1)], sp: wrap(v.sp + 2), mem: v.mem }
}

/// What a handler must satisfy to be "register preserving": R0-R2 and SP restored, the two stack
/// cells holding the return context untouched (everything else it may change).
pub open spec fn handler_ok(before: View, after: View) -> bool {
    &&& after.r == before.r
    &&& after.sp == before.sp
    &&& after.mem[before.sp] == before.mem[before.sp]
    &&& after.mem[wrap(before.sp + 1)] == before.mem[wrap(before.sp + 1)]
}

/// entry ; handler ; RETI restores registers, flags (incl. IE), SP and PC of the interrupted program.
pub proof fn interrupt_is_transparent(v: View, h: View)
    requires
        0 <= v.sp < 256, 0 <= v.pc < 256, 0 <= v.fr < 256,
        handler_ok(entry(v), h),
    ensures
        reti(h).r == v.r,
        reti(h).pc == v.pc,
        reti(h).fr == v.fr,
        reti(h).sp == v.sp,
{
    let e = entry(v);
    let sp1 = wrap(v.sp - 1 + 256);
    let sp2 = wrap(v.sp - 2 + 256);
    assert(e.sp == sp2);
    assert(wrap(sp2 + 1) == sp1);
    assert(wrap(sp2 + 2) == v.sp);
    assert(sp1 != sp2);
    assert(e.mem[sp2] == v.pc);
    assert(e.mem[sp1] == v.fr);
}

// ------------------------------------------------------------------------- C02: image layout
/// Per-line contract (C02.P.push… / C02.D…): line i emits `len(i)` bytes and the address counter
/// advances by exactly that.  Then the address of line i is the sum of the lengths before it, i.e.
/// the image is the concatenation from address 0 and a label defined before line i resolves to the
/// address of the byte that follows it.
pub open spec fn addr_of(lens: Seq<nat>, i: nat) -> nat
    decreases i,
{
    if i == 0 { 0 } else { addr_of(lens, (i - 1) as nat) + lens[i - 1] }
}

pub open spec fn counter_after(lens: Seq<nat>, i: nat) -> nat
    decreases i,
{
    if i == 0 { 0 } else { counter_after(lens, (i - 1) as nat) + lens[i - 1] }
}

pub proof fn counter_is_concatenation_offset(lens: Seq<nat>, i: nat)
    requires i <= lens.len(),
    ensures counter_after(lens, i) == addr_of(lens, i),
    decreases i,
{
    if i != 0 {
        counter_is_concatenation_offset(lens, (i - 1) as nat);
    }
}

/// Relative jump (C02 closure clause): emitted offset o = target - (addr + 2) mod 256 makes the CPU's
/// JR (C01.JR.view: PC' = addr + 2 + o mod 256) land on the target.
pub proof fn relative_offset_lands_on_target(addr: int, target: int)
    requires 0 <= addr < 256, 0 <= target < 256,
    ensures ((addr + 2) % 256 + ((target - (addr + 2)) % 256 + 256) % 256) % 256 == target,
{
}

} // verus!

fn main() {}
