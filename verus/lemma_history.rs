// Whole-history composition lemmas over the per-call contracts of C10 (no repository code
// in here).  Each lemma is ONE induction over a sequence of calls whose single-call behaviour is the
// postcondition + frame that the Kani obligations named in the comments discharge on the real code.
use vstd::prelude::*;

verus! {

// ------------------------------------------------------------ C10: "read back until overwritten"
/// Every public mutator of the bus, seen through what its contract says about the RAM view.
pub enum BusOp {
    /// Bus::write(addr, byte) with addr <= 0xEF      (C10.W.ram.frame: exactly old[ram[addr] := byte])
    WriteRam { addr: int, byte: int },
    /// Bus::write(addr, byte) with addr >= 0xF0      (C10.W.io.ram-untouched)
    WriteIo { addr: int, byte: int },
    /// Bus::read(addr)                               (C10.R.pure: whole bus unchanged)
    Read { addr: int },
    /// Bus::input_fc/fd/fe/ff                        (C10.I.set.frame)
    SetInput { reg: int, byte: int },
    /// Bus::cpu_reset / master_reset                 (C10.F.resets-leave-ram)
    Reset,
    /// get_level_interrupt / take_edge_interrupt     (C10.F.interrupt-polls-leave-ram)
    PollInterrupt,
}

pub open spec fn ram_ok(ram: Seq<int>) -> bool {
    ram.len() == 240
}

pub open spec fn op_ok(op: BusOp) -> bool {
    match op {
        BusOp::WriteRam { addr, byte } => 0 <= addr <= 0xEF && 0 <= byte < 256,
        BusOp::WriteIo { addr, byte } => 0xF0 <= addr <= 0xFF,
        _ => true,
    }
}

/// The per-call contract, RAM part.
pub open spec fn apply(ram: Seq<int>, op: BusOp) -> Seq<int> {
    match op {
        BusOp::WriteRam { addr, byte } => ram.update(addr, byte),
        _ => ram,
    }
}

pub open spec fn run(ram: Seq<int>, ops: Seq<BusOp>) -> Seq<int>
    decreases ops.len(),
{
    if ops.len() == 0 { ram } else { apply(run(ram, ops.drop_last()), ops.last()) }
}

pub open spec fn overwrites(op: BusOp, a: int) -> bool {
    match op {
        BusOp::WriteRam { addr, byte } => addr == a,
        _ => false,
    }
}

pub proof fn run_keeps_shape(ram: Seq<int>, ops: Seq<BusOp>)
    requires ram_ok(ram), forall|i: int| 0 <= i < ops.len() ==> op_ok(#[trigger] ops[i]),
    ensures ram_ok(run(ram, ops)),
    decreases ops.len(),
{
    if ops.len() != 0 {
        let p = ops.drop_last();
        assert forall|i: int| 0 <= i < p.len() implies op_ok(#[trigger] p[i]) by { assert(p[i] == ops[i]); }
        run_keeps_shape(ram, p);
    }
}

/// A cell keeps its value across any history of bus operations none of which writes that cell:
/// no I/O write, read, input change, reset or interrupt poll, and no write to ANOTHER RAM cell,
/// disturbs it (no aliasing, no leak).
pub proof fn cell_stable_until_overwritten(ram: Seq<int>, ops: Seq<BusOp>, a: int)
    requires
        ram_ok(ram), 0 <= a <= 0xEF,
        forall|i: int| 0 <= i < ops.len() ==> op_ok(#[trigger] ops[i]),
        forall|i: int| 0 <= i < ops.len() ==> !overwrites(#[trigger] ops[i], a),
    ensures run(ram, ops)[a] == ram[a],
    decreases ops.len(),
{
    if ops.len() != 0 {
        let p = ops.drop_last();
        assert forall|i: int| 0 <= i < p.len() implies op_ok(#[trigger] p[i]) by { assert(p[i] == ops[i]); }
        assert forall|i: int| 0 <= i < p.len() implies !overwrites(#[trigger] p[i], a) by { assert(p[i] == ops[i]); }
        cell_stable_until_overwritten(ram, p, a);
        run_keeps_shape(ram, p);
        let last = ops.last();
        assert(last == ops[ops.len() - 1]);
        assert(op_ok(last) && !overwrites(last, a));
    }
}

/// The property sentence: a byte written to a RAM address is what a later read of that address
/// returns (C10.R.value: read(a) == ram[a] for a <= 0xEF) until that address is written again.
pub proof fn written_byte_read_back_until_overwritten(ram: Seq<int>, a: int, b: int, ops: Seq<BusOp>)
    requires
        ram_ok(ram), 0 <= a <= 0xEF, 0 <= b < 256,
        forall|i: int| 0 <= i < ops.len() ==> op_ok(#[trigger] ops[i]),
        forall|i: int| 0 <= i < ops.len() ==> !overwrites(#[trigger] ops[i], a),
    ensures run(apply(ram, BusOp::WriteRam { addr: a, byte: b }), ops)[a] == b,
{
    let r1 = apply(ram, BusOp::WriteRam { addr: a, byte: b });
    assert(ram_ok(r1));
    cell_stable_until_overwritten(r1, ops, a);
}

/// Last write wins: with a later write of the same cell in the history, the later byte is read.
pub proof fn last_write_wins(ram: Seq<int>, a: int, b1: int, b2: int, mid: Seq<BusOp>, after: Seq<BusOp>)
    requires
        ram_ok(ram), 0 <= a <= 0xEF, 0 <= b1 < 256, 0 <= b2 < 256,
        forall|i: int| 0 <= i < mid.len() ==> op_ok(#[trigger] mid[i]),
        forall|i: int| 0 <= i < after.len() ==> op_ok(#[trigger] after[i]),
        forall|i: int| 0 <= i < after.len() ==> !overwrites(#[trigger] after[i], a),
    ensures
        run(apply(run(apply(ram, BusOp::WriteRam { addr: a, byte: b1 }), mid), BusOp::WriteRam { addr: a, byte: b2 }), after)[a] == b2,
{
    let r1 = apply(ram, BusOp::WriteRam { addr: a, byte: b1 });
    run_keeps_shape(r1, mid);
    written_byte_read_back_until_overwritten(run(r1, mid), a, b2, after);
}

} // verus!

fn main() {}
