// The "by induction they hold after every history" step of C05, C13 and C14, mechanised once over
// abstract states and operations (no repository code in here).  The hypotheses of each lemma are
// exactly the shapes of the per-call obligations that Kani discharges on the real functions:
//   base      : the power-on state / Board::new() satisfies the invariant        (c13_*_base, c14_new…)
//   step      : every public mutator, from EVERY invariant-satisfying state, re-establishes it
//   absorbing : from a halted state, a clock edge returns a bit-identical machine  (C05.A.*)
// State and operation are uninterpreted: the lemmas hold for any machine and any operation alphabet,
// so they cannot depend on anything the per-call contracts do not say.
use vstd::prelude::*;

verus! {

pub uninterp spec fn apply(s: int, op: int) -> int;   // one public operation (edge, key, reset, setter, port write …)
pub uninterp spec fn inv(s: int) -> bool;              // the representation invariant (wf / I.board / supervision)
pub uninterp spec fn halted(s: int) -> bool;           // error-stop or stop latch set
pub uninterp spec fn is_edge(op: int) -> bool;         // op is trigger_clock_edge

pub open spec fn run(s: int, ops: Seq<int>) -> int
    decreases ops.len(),
{
    if ops.len() == 0 { s } else { apply(run(s, ops.drop_last()), ops.last()) }
}

/// Inductive invariant ⇒ invariant of every reachable state, for every history (any length, any
/// interleaving of operations).
pub proof fn invariant_after_every_history(s0: int, ops: Seq<int>)
    requires
        inv(s0),
        forall|s: int, op: int| inv(s) ==> inv(#[trigger] apply(s, op)),
    ensures inv(run(s0, ops)),
    decreases ops.len(),
{
    if ops.len() != 0 {
        invariant_after_every_history(s0, ops.drop_last());
    }
}

/// Every prefix state satisfies the invariant too (so a property of the form "inv(s) ⇒ op does not
/// panic" — Kani's generated obligations under the wf precondition — applies at every call of the
/// history, which is C13's "no program and no stimulus can crash the core").
pub proof fn invariant_at_every_call(s0: int, ops: Seq<int>, k: int)
    requires
        inv(s0), 0 <= k <= ops.len(),
        forall|s: int, op: int| inv(s) ==> inv(#[trigger] apply(s, op)),
    ensures inv(run(s0, ops.subrange(0, k))),
{
    invariant_after_every_history(s0, ops.subrange(0, k));
}

/// C05 absorption: the single-edge clause "halted(s) ⇒ edge(s) == s" (whole-struct equality) makes
/// the halt state a fixpoint of ANY number of clock edges: only a reset or CONTINUE key leaves it.
pub proof fn halt_is_absorbing_under_edges(s: int, ops: Seq<int>)
    requires
        halted(s),
        forall|i: int| 0 <= i < ops.len() ==> is_edge(#[trigger] ops[i]),
        forall|t: int, op: int| halted(t) && is_edge(op) ==> #[trigger] apply(t, op) == t,
    ensures run(s, ops) == s,
    decreases ops.len(),
{
    if ops.len() != 0 {
        let p = ops.drop_last();
        assert forall|i: int| 0 <= i < p.len() implies is_edge(#[trigger] p[i]) by { assert(p[i] == ops[i]); }
        halt_is_absorbing_under_edges(s, p);
        assert(is_edge(ops[ops.len() - 1]));
    }
}

} // verus!

fn main() {}
