// Composition lemmas over the loop contracts of C01 (no repository code in here).
// The Kani obligations give, for the REAL micro-loops:
//   MUL:  entry ⇒ Inv(0);   Inv(j) ∧ more(j) ⇒ Inv(j+1) ∧ j+1 < 8;   Inv(j) ∧ ¬more(j) ⇒ X
//   DIV:  entry ⇒ Inv(0);   Inv(q) ∧ rem(q) ≥ b ⇒ Inv(q+1);          Inv(q) ∧ rem(q) < b ⇒ X(q) ∧ q = a / b
// where more(j) ⇔ (a >> (j+1)) ≠ 0.  These lemmas are the while rule: from the per-pass contracts the
// exit state is reached after a bounded number of passes for EVERY operand pair.
use vstd::prelude::*;

verus! {

// ---------------------------------------------------------------------------------------- MUL
pub uninterp spec fn inv_mul(a: u8, b: u8, j: nat) -> bool;
pub uninterp spec fn exit_mul(a: u8, b: u8) -> bool;

pub open spec fn more(a: u8, j: nat) -> bool {
    (a as nat) / pow2(j + 1) != 0
}

pub open spec fn pow2(n: nat) -> nat
    decreases n,
{
    if n == 0 { 1 } else { 2 * pow2((n - 1) as nat) }
}

proof fn pow2_8()
    ensures pow2(8) == 256,
{
    reveal_with_fuel(pow2, 9);
}

/// MUL terminates with the exit contract within 8 - j further passes from Inv(j).
pub proof fn mul_while_rule(a: u8, b: u8, j: nat)
    requires
        j < 8,
        inv_mul(a, b, j),
        // per-pass contracts (discharged by Kani on the real code: c01_mul_pass_*)
        forall|k: nat| k < 8 && inv_mul(a, b, k) && more(a, k) ==> #[trigger] inv_mul(a, b, k + 1) && k + 1 < 8,
        forall|k: nat| k < 8 && #[trigger] inv_mul(a, b, k) && !more(a, k) ==> exit_mul(a, b),
    ensures
        exit_mul(a, b),
    decreases 8 - j,
{
    if more(a, j) {
        assert(inv_mul(a, b, j + 1) && j + 1 < 8);
        mul_while_rule(a, b, j + 1);
    } else {
        assert(exit_mul(a, b));
    }
}

/// At j = 7 no higher bit remains, so at most 8 passes are ever needed (the variant's bound).
pub proof fn mul_at_most_8_passes(a: u8)
    ensures !more(a, 7),
{
    pow2_8();
    assert((a as nat) / 256 == 0);
}

// ---------------------------------------------------------------------------------------- DIV
pub uninterp spec fn inv_div(a: u8, b: u8, q: nat) -> bool;
pub uninterp spec fn exit_div(a: u8, b: u8, q: nat) -> bool;

/// DIV terminates with the quotient: from Inv(q) the remainder a - q*b strictly decreases.
pub proof fn div_while_rule(a: u8, b: u8, q: nat)
    requires
        b != 0,
        q * (b as nat) <= a as nat,
        inv_div(a, b, q),
        // per-pass contracts (c01_div_pass_more / c01_div_pass_last)
        forall|k: nat| #[trigger] inv_div(a, b, k) && k * (b as nat) <= a as nat && (a as nat) - k * (b as nat) >= b as nat ==> inv_div(a, b, k + 1),
        forall|k: nat| #[trigger] inv_div(a, b, k) && k * (b as nat) <= a as nat && (a as nat) - k * (b as nat) < b as nat ==> exit_div(a, b, k),
    ensures
        exists|k: nat| exit_div(a, b, k) && k * (b as nat) <= a as nat && (a as nat) - k * (b as nat) < b as nat,
    decreases (a as nat) - q * (b as nat),
{
    let rem = (a as nat) - q * (b as nat);
    if rem >= b as nat {
        assert((q + 1) * (b as nat) == q * (b as nat) + b as nat) by (nonlinear_arith);
        assert(inv_div(a, b, q + 1));
        div_while_rule(a, b, q + 1);
    } else {
        assert(exit_div(a, b, q));
    }
}

// ------------------------------------------------------------------ C09: rank ⇒ bounded return
pub uninterp spec fn rank(s: int) -> nat;
pub uninterp spec fn is_fetch(s: int) -> bool;
pub uninterp spec fn step(s: int) -> int;

/// If every non-fetch state's successor has a strictly smaller rank (C09.N.rank-decreases, outside
/// the MUL/DIV routines), a fetch state is reached within rank(s) steps.
pub open spec fn iterate(s: int, n: nat) -> int
    decreases n,
{
    if n == 0 { s } else { iterate(step(s), (n - 1) as nat) }
}

pub proof fn rank_bounds_return(s: int)
    requires
        forall|t: int| !is_fetch(t) ==> rank(#[trigger] step(t)) < rank(t),
    ensures
        exists|n: nat| n <= rank(s) && is_fetch(iterate(s, n)),
    decreases rank(s),
{
    if is_fetch(s) {
        assert(iterate(s, 0) == s);
    } else {
        rank_bounds_return(step(s));
        let n = choose|n: nat| n <= rank(step(s)) && is_fetch(iterate(step(s), n));
        assert(iterate(s, n + 1) == iterate(step(s), n));
        assert(n + 1 <= rank(s));
    }
}

// ------------------------------------------------------ C15: cycle count closed forms for MUL
/// words of a MUL with multiplier a: entry (3) + per consumed bit 3 (bit 0) or 4 (bit 1) words for
/// every pass but the last, which costs 2 or 3, + exit 1 + ... : stated as a recurrence over the
/// per-pass counts proved by C15.C.mul.*; the total is bounded by 3 + 8*4 + 1.
pub open spec fn mul_words(a: nat, passes_left: nat) -> nat
    decreases passes_left,
{
    if passes_left == 0 {
        0
    } else if a / 2 == 0 {
        // last pass
        (if a % 2 == 1 { 3nat } else { 2nat })
    } else {
        (if a % 2 == 1 { 4nat } else { 3nat }) + mul_words(a / 2, (passes_left - 1) as nat)
    }
}

pub proof fn mul_words_bounded(a: nat, n: nat)
    ensures mul_words(a, n) <= 4 * n,
    decreases n,
{
    if n != 0 && a / 2 != 0 {
        mul_words_bounded(a / 2, (n - 1) as nat);
    }
}

} // verus!

fn main() {}
