//! Demonstration (native, public API only) of a defect of the pinned tree that the contract checks
//! could NOT decide (hash-map look-ups exhaust the verifier, see DESIGN 5/C02, 5/C06): a label
//! referenced in another letter case than its definition is accepted by the parser (labels are
//! compared case-insensitively there) but `Translator::finish` looks it up case-sensitively and
//! panics with "infallible. Labels must be defined".
//! Place as emulator-2a-lib/tests/label_case_demo.rs and run
//!   cargo test --offline -p emulator-2a-lib --test label_case_demo
//! It fails before the `fix:` commit recorded in known_findings.json and passes after it.
use emulator_2a_lib::{compiler::Translator, parser::AsmParser};

#[test]
fn mixed_case_label_reference_compiles_and_resolves() {
    let src = "#! mrasm\nloop:\n    INC R0\n    JMP LOOP\n    JR Loop\n.EQU Port 255\n    ST (PORT), R0\n";
    let asm = AsmParser::parse(src).expect("the parser accepts mixed-case label references");
    let code = Translator::compile(&asm);
    let bytes: Vec<u8> = code.bytes().cloned().collect();
    // INC R0 | JMP loop (FB 00 13) | JR loop (20, off) | ST (0xFF),R0 (F0 1F FF)
    assert_eq!(bytes, vec![0x44, 0xFB, 0x00, 0x13, 0x20, 0xFA, 0xF0, 0x1F, 0xFF]);
}
