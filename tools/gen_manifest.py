#!/usr/bin/env python3
"""Writes /verif/MANIFEST.json from vf/props.py (single source of truth for what is claimed)."""
import json, os, sys
HERE = os.path.dirname(os.path.abspath(__file__))
VERIF = os.path.dirname(HERE)
sys.path.insert(0, os.path.join(VERIF, "vf"))
import props as P

ALL = ["C%02d" % i for i in range(1, 18)]
checks = []
for pid in sorted(P.PROPS):
    c = P.PROPS[pid]
    checks.append({
        "property_id": pid,
        "quick_cmd": "./check %s --tier quick" % pid,
        "thorough_cmd": "./check %s --tier thorough" % pid,
        "evidence_file": "/verif/evidence/%s.json" % pid,
        "replay_cmd_template": "./check --replay {path}",
        "engine": "contracts",
        "level_claimed": {"category": "proof", "text": c["level_text"], "design_ref": c.get("design_ref", "DESIGN.md section 5/" + pid)},
        "level_note": c["level_note"],
        "technique": c["technique"],
    })
na = [{"property_id": pid, "reason": P.NOT_APPLICABLE[pid]} for pid in ALL if pid not in P.PROPS]
m = {
    "version": 1,
    "setup_cmd": "./setup.sh",
    "hooks": {
        "guard": "cfg(kani) / cfg(verif_replay) — set only inside the staged copy of /repo that each check builds; /repo itself carries no hook",
        "enable": "checks copy /repo's working tree to a scratch directory, append `#[cfg(any(kani, verif_replay))] mod verif_*;` lines (add-only) and build that copy with cargo-kani (cfg kani) or with RUSTFLAGS=--cfg verif_replay for native replay",
        "baseline_off_cmd": "cd /repo && cargo test --workspace --no-fail-fast --offline",
        "source_commits": [],
        "add_only": True,
    },
    "engines": [{"name": "contracts", "path": "/verif/vf/driver.py", "serves_properties": sorted(P.PROPS),
                 "kind_free_text": "contract-based deductive verification: pre/postcondition + whole-state frame obligations on the real functions, discharged by Kani/CBMC over fully symbolic inputs (and by Verus on the mechanically extracted ALU function); counterexamples replayed natively on the real code"}],
    "checks": checks,
    "not_applicable": na,
    "notes": "exit 0 = every obligation discharged; exit 1 = an obligation refuted (VIOLATION line, replay file); exit 2 = undecided (compile error/anchor lost/timeout), never an alarm. Known findings: /verif/known_findings.json.",
}
json.dump(m, open(os.path.join(VERIF, "MANIFEST.json"), "w"), indent=1)
print("MANIFEST: %d checks, %d not_applicable" % (len(checks), len(na)))
