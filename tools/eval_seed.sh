#!/bin/bash
# usage: eval_seed.sh <seed id e.g. C08> <property to check> [VERIF_ONLY regex]
# (waves 2-4 used copies of this script with the paths /tmp/wt<N>-<id>, /tmp/seed<N>-<id> and the
#  destination /verif/seeded/<id><b|c|d>)
# 1. confirms in the sub-agent's scratch worktree: suite passes with the change, demo fails with it and passes without
# 2. applies the patch to /repo, runs the check, reverts /repo
id=$1; prop=$2; only=$3
wt=/tmp/wt-$id; out=/tmp/seed-$id; low=$(echo $id | tr A-Z a-z)
dst=/verif/seeded/$id; mkdir -p $dst
cp $out/patch.diff $dst/patch.diff; cp $out/demo.rs $dst/demo.rs; cp $out/notes.md $dst/notes.md 2>/dev/null
cd $wt || exit 9
git checkout -q -- . ; git apply $out/patch.diff || { echo "patch does not apply"; exit 9; }
demo=emulator-2a-lib/tests/demo_$low.rs
rm -f $demo
suite=$(cargo test --workspace --no-fail-fast --offline 2>&1 | grep -E "^test result" | awk '{p+=$4; f+=$6} END{print p" passed "f" failed"}')
cp $out/demo.rs $demo
with=$(cargo test --offline -p emulator-2a-lib --test demo_$low 2>&1 | grep -E "^test result" | tail -1)
git apply -R $out/patch.diff
without=$(cargo test --offline -p emulator-2a-lib --test demo_$low 2>&1 | grep -E "^test result" | tail -1)
git apply $out/patch.diff
echo "suite(with change): $suite"; echo "demo(with): $with"; echo "demo(without): $without"
cd /verif
git -C /repo apply $out/patch.diff || { echo "patch does not apply to /repo"; exit 9; }
t0=$(date +%s)
VERIF_ONLY="$only" ./check $prop > $dst/check_output.txt 2>&1; rc=$?
t1=$(date +%s)
git -C /repo checkout -- .
grep -E "^VIOLATION|^  obligation|^OK|^UNDECIDED|^  -" $dst/check_output.txt | head -8
python3 - "$id" "$prop" "$rc" "$suite" "$with" "$without" "$((t1-t0))" "$only" <<'PY'
import json,sys,re
id,prop,rc,suite,w,wo,secs,only=sys.argv[1:9]
out=open('/verif/seeded/%s/check_output.txt'%id).read()
viol=re.findall(r"obligation (.*) in (\w+)",out)
notes=open('/verif/seeded/%s/notes.md'%id).read() if __import__('os').path.exists('/verif/seeded/%s/notes.md'%id) else ''
json.dump({"seed":id,"breaks_property":prop,"needs_to_manifest":notes[:1200],
 "confirmed":{"existing_suite_with_change":suite,"demo_with_change":w,"demo_without_change":wo},
 "check_run":{"command":("VERIF_ONLY=%s "%only if only else "")+"./check %s (patch applied to /repo, reverted afterwards)"%prop,"exit_code":int(rc),"wall_s":int(secs),
              "refuted_obligations":[{"clause":c,"harness":h} for c,h in viol],
              "native_replay_reproduced": "no-failing-input-found" not in out and int(rc)==1},
 "caught": int(rc)==1},open('/verif/seeded/%s/meta.json'%id,'w'),indent=1)
print("rc=%s caught=%s"%(rc,int(rc)==1))
PY
rm -rf /verif/evidence/replays/*
