#!/usr/bin/env python3
"""Untrusted helper: parse the control store from the (staged) source and decode fields.
Used only to *generate certificates* (micro-paths, ranks) that the verifier then checks against the
real code; never decides anything."""
import re, sys

BITS = {"MAC3":27,"MAC2":26,"MAC1":25,"MAC0":24,"NA4":23,"NA3":22,"NA2":21,"NA1":20,"NA0":19,"BUSWR":18,"BUSEN":17,
        "MRGAA3":16,"MRGAA2":15,"MRGAA1":14,"MRGAA0":13,"MRGAB3":12,"MRGAB2":11,"MRGAB1":10,"MRGAB0":9,"MRGWS":8,"MRGWE":7,
        "MALUIA":6,"MALUIB":5,"MALUS3":4,"MALUS2":3,"MALUS1":2,"MALUS0":1,"MCHFLG":0}
ALU = ["ADDH","A","NOR","ZERO","ADD","ADDS","ADC","ADCS","LSR","RR","RRC","ASR","B","SETC","BH","INVC"]

def load(path="/repo/emulator-2a-lib/src/machine/microprogram_ram_content.rs"):
    words, comments = [], []
    for line in open(path):
        m = re.search(r"from_bits_truncate\(0b([01]+)\),?\s*(?://\s*[01]+\s*\|?\s*(.*))?", line)
        if m:
            words.append(int(m.group(1), 2))
            comments.append((m.group(2) or "").strip())
    assert len(words) == 512, len(words)
    return words, comments

def f(w, name): return (w >> BITS[name]) & 1

def decode(w):
    d = {k: f(w, k) for k in BITS}
    d["alu"] = ALU[(d["MALUS3"]<<3)|(d["MALUS2"]<<2)|(d["MALUS1"]<<1)|d["MALUS0"]]
    d["na"] = (d["NA4"]<<4)|(d["NA3"]<<3)|(d["NA2"]<<2)|(d["NA1"]<<1)|d["NA0"]
    d["mac"] = (d["MAC3"]<<3)|(d["MAC2"]<<2)|(d["MAC1"]<<1)|d["MAC0"]
    return d

def next_addr(w, ir, cf, zf, nf, ief, co, zo, no, iff, lvl=0):
    """Mirror of Signals::next_microprogram_address (certificate generation only)."""
    d = decode(w)
    op00, op01, op10, op11 = ir & 1, (ir>>1)&1, (ir>>2)&1, (ir>>3)&1
    am2 = [1, cf, zf, nf][(op01<<1)|op00]
    al3 = op10 ^ am2
    al2 = ief & (iff | lvl)
    sel = (d["MAC1"]<<2)|(d["MAC0"]<<1)|d["NA0"]
    am1 = [0, 1, al3, cf, co, zo, no, al2][sel]
    am4 = op11 if d["MAC2"] else d["NA1"]
    am3 = op10 if d["MAC2"] else am1
    return ((ir>>4)&0xF)<<5 | d["NA4"]<<4 | d["NA3"]<<3 | d["NA2"]<<2 | am4<<1 | am3

if __name__ == "__main__":
    words, comments = load(*sys.argv[1:2])
    for i, w in enumerate(words):
        if w == 0: continue
        d = decode(w)
        aa = "op0" if d["MRGAA3"] else "R%d" % ((d["MRGAA2"]<<2)|(d["MRGAA1"]<<1)|d["MRGAA0"])
        ab = "op1" if d["MRGAB3"] else "R%d" % ((d["MRGAB2"]<<2)|(d["MRGAB1"]<<1)|d["MRGAB0"])
        kb = (0xF8*d["MRGAB3"])|(d["MRGAB2"]<<2)|(d["MRGAB1"]<<1)|d["MRGAB0"]
        print("%03X mac=%X na=%02X %s%s A=%s B=%s ws=%d we=%d ia=%d ib=%d(k=%02X) %-4s flg=%d | %s" % (
            i, d["mac"], d["na"], "R" if d["BUSEN"] else "-", "W" if d["BUSWR"] else "-", aa, ab, d["MRGWS"], d["MRGWE"], d["MALUIA"], d["MALUIB"], kb, d["alu"], d["MCHFLG"], comments[i]))
