// C09 — micro-sequencer control flow: ghost certificate checked against the REAL next-address
// function and IR-load logic (injected as `machine::raw::verif_c09`).
//
// Certificate (generated per run by walking the real code natively, untrusted, CHECKED here):
//   CERT_MASK[a]  : set of IR values with which word `a` is reached while executing a DEFINED opcode
//                   (from reset, every first byte outside 0x4C-0x4F / 0xE0-0xEF, every documented
//                   second byte, interrupt entry);
//   CERT_RANK[a]  : upper bound on the number of words until the next instruction fetch;
//   STUCK_MASK[a] : states entered by an UNDEFINED first byte.
// Obligations (one symbolic query over addr x IR x flags x ALU conditions x interrupt x fetched byte):
//   closure, programmed words only, routine containment, strictly decreasing rank except inside the
//   MUL/DIV routines, stuck states never reach a fetch; plus loop variants for MUL and DIV.
use super::verif_st_raw::*;
use super::*;
use crate::machine::alu::verif_st_alu::*;
use enum_primitive::FromPrimitive;
use crate::verif_shim::*;
use crate::{vassert, vcover};

include!(concat!(env!("VERIF_GEN_DIR"), "/c09_cert.rs"));

/// First bytes the statement declares undefined.
pub(crate) fn undefined_first(k: u8) -> bool {
    (k >= 0x4C && k <= 0x4F) || (k >= 0xE0 && k <= 0xEF)
}
/// Documented second bytes of the two-byte forms: MOV 0x1x, CMP 0x2x, BITT 0x3x, LDSP 0x40,
/// LDFR 0x44, BITS 0x5x, BITC 0x6x.
pub(crate) fn defined_second(k: u8) -> bool {
    matches!(k >> 4, 1 | 2 | 3 | 5 | 6) || k == 0x40 || k == 0x44
}

fn bit(mask: &[[u32; 8]; 512], addr: usize, ir: u8) -> bool {
    (mask[addr][(ir >> 5) as usize] >> (ir & 31)) & 1 == 1
}
pub(crate) fn in_cert(addr: usize, ir: u8) -> bool {
    bit(&CERT_MASK, addr, ir)
}
pub(crate) fn in_stuck(addr: usize, ir: u8) -> bool {
    bit(&STUCK_MASK, addr, ir)
}

/// Word classes, read from the real control store.
pub(crate) fn is_first_fetch(w: Word) -> bool {
    w.contains(Word::MAC3) && w.contains(Word::MAC2) && w.contains(Word::MAC0) && !w.contains(Word::MAC1)
}
pub(crate) fn is_second_fetch(w: Word) -> bool {
    !w.contains(Word::MAC3) && w.contains(Word::MAC2) && w.contains(Word::MAC0) && !w.contains(Word::MAC1)
}
pub(crate) fn resets_ir(w: Word) -> bool {
    w.contains(Word::MAC1) && w.contains(Word::MAC2)
}

/// The control part of one clock edge, executed by the REAL functions in the real order:
/// commit flags, load/reset IR, sequence.  Returns (micro-address', IR').
pub(crate) fn control_step(addr: usize, ir: u8, flags: u8, co: bool, zo: bool, no: bool, iff: bool, byte: u8) -> (usize, u8) {
    let mut m = RawMachine::new();
    m.microprogram_ram.set_address(addr);
    m.instruction_register.set_raw(ir);
    m.register.set(RegisterNumber::R4, flags);
    m.alu_output = mk_alu_output(0, co, zo, no);
    m.pending_edge_interrupt = if iff { Some(Interrupt) } else { None };
    m.last_bus_read = byte;
    let _ = m
        .apply_pending_register_writes()
        .update_instruction_from_bus()
        .fetch_interrupts()
        .update_word();
    (m.microprogram_ram.get_address(), m.instruction_register.get_raw())
}

#[cfg_attr(kani, kani::proof)]
pub(crate) fn c09_step() {
    let addr: usize = vany();
    let ir: u8 = vany();
    let (flags, co, zo, no, iff, byte): (u8, bool, bool, bool, bool, u8) = (vany(), vany(), vany(), vany(), vany(), vany());
    vassume(addr < 512);
    vassume(in_cert(addr, ir));
    vcover!(addr == 0x165, "pre.mul-head");
    vcover!(is_second_fetch(word_at(addr)), "pre.second-fetch");
    let w = word_at(addr);
    vassert!(w.bits() != 0, "C09.N.certified-word-is-programmed");
    let (a2, ir2) = control_step(addr, ir, flags, co, zo, no, iff, byte);
    vassert!(a2 < 512, "C09.N.address-in-store");
    // stays within the routine of the opcode in the instruction register
    vassert!(a2 >> 5 == (ir2 >> 4) as usize, "C09.N.routine-containment");
    if is_first_fetch(w) {
        vassert!(ir2 == byte, "C09.N.fetch-loads-opcode");
        if !undefined_first(byte) {
            vassert!(in_cert(a2, ir2), "C09.N.defined-opcode-enters-certified-routine");
            vassert!(word_at(a2).bits() != 0, "C09.N.defined-opcode-dispatch-programmed");
        } else {
            vassert!(in_stuck(a2, ir2), "C09.N.undefined-opcode-enters-stuck-set");
        }
    } else if is_second_fetch(w) {
        vassert!(ir2 == byte, "C09.N.second-fetch-loads-opcode");
        if defined_second(byte) {
            vassert!(in_cert(a2, ir2), "C09.N.defined-second-byte-enters-certified-routine");
            vassert!(CERT_RANK[a2] < CERT_RANK[addr], "C09.N.rank-decreases-after-second-fetch");
        }
    } else {
        vassert!(ir2 == if resets_ir(w) { 0x02 } else { ir }, "C09.N.ir-changes-only-at-fetch-or-interrupt-entry");
        vassert!(in_cert(a2, ir2), "C09.N.closure");
        vassert!(word_at(a2).bits() != 0, "C09.N.successor-is-programmed");
        // bounded return: the rank strictly decreases, except on the data-driven MUL (0xB_) and
        // DIV (0xC_) loops, whose termination is c09_mul_variant / c09_div_variant
        let in_loop_routine = ir >> 4 == 0xB || ir >> 4 == 0xC;
        vassert!(CERT_RANK[a2] < CERT_RANK[addr] || in_loop_routine, "C09.N.rank-decreases");
    }
    if is_first_fetch(w) {
        vassert!(CERT_RANK[addr] == 0, "C09.N.fetch-has-rank-zero");
    }
}

/// Undefined first bytes never complete: the stuck set is closed and contains no fetch word.
#[cfg_attr(kani, kani::proof)]
pub(crate) fn c09_stuck() {
    let addr: usize = vany();
    let ir: u8 = vany();
    let (flags, co, zo, no, iff, byte): (u8, bool, bool, bool, bool, u8) = (vany(), vany(), vany(), vany(), vany(), vany());
    vassume(addr < 512);
    vassume(in_stuck(addr, ir));
    vcover!(ir == 0x4C, "pre.4c");
    vcover!(ir == 0xEF, "pre.ef");
    let w = word_at(addr);
    vassert!(undefined_first(ir), "C09.U.only-undefined-opcodes-are-stuck");
    vassert!(!is_first_fetch(w) && !is_second_fetch(w) && !resets_ir(w), "C09.U.no-fetch-in-stuck-set");
    vassert!(!w.contains(Word::MAC3), "C09.U.never-reports-instruction-done");
    let (a2, ir2) = control_step(addr, ir, flags, co, zo, no, iff, byte);
    vassert!(in_stuck(a2, ir2), "C09.U.stuck-set-closed");
}

/// Base cases: the reset state and the interrupt entry are certified; the certificate is not empty.
#[cfg_attr(kani, kani::proof)]
pub(crate) fn c09_init() {
    vcover!(true, "pre");
    let m = RawMachine::new();
    vassert!(in_cert(maddr(&m), ir(&m)), "C09.I.power-on-state-certified");
    let mut m2 = any_raw();
    m2.cpu_reset();
    vassert!(maddr(&m2) == maddr(&m) && ir(&m2) == ir(&m), "C09.I.reset-state-is-power-on-state");
    vassert!(CERT_STATES > 1000, "C09.I.certificate-not-trivial");
}

/// The loop contracts of MUL and DIV live with the instruction triples (C01); their variants are
/// re-stated here: one pass from the loop head back to the loop head strictly decreases Rd.
/// Pinned path: after every edge the micro-address is asserted against the path and only then
/// treated as known.
fn at(m: &RawMachine, a: usize) -> bool {
    maddr(m) == a
}
fn step(m: &mut RawMachine) {
    // one micro-step = the edge that executes the word plus the wait edge it may generate
    m.trigger_clock_edge();
    // the wait-consuming edge through its contract (C05.E.wait / C15.E.wait): clears the wait only
    let _ = m.pending_wait_for_memory.take();
}

#[cfg_attr(kani, kani::proof)]
#[cfg_attr(kani, kani::unwind(12))]
pub(crate) fn c09_mul_variant() {
    let mut m = any_raw();
    vassume(wf_raw(&m));
    vassume(m.state == State::Running && m.pending_wait_for_memory.is_none());
    vassume(at(&m, 0x165) && ir(&m) >> 4 == 0xB);
    // at the loop head the word 0x165 (LSR Rd) has just executed: its result is latched, the write
    // to Rd is pending
    let rd = (ir(&m) & 3) as usize;
    vassume(m.pending_register_write == Some(RegisterNumber::from_u8(rd as u8).unwrap()));
    let v0 = m.alu_output.output(); // value Rd takes at the next commit
    vcover!(v0 == 0x80, "pre.some-value");
    // supervision is not part of this clause: PC/SP are not written inside the loop
    vassume(m.stacksize == Stacksize::_0 && m.programsize == Programsize::Size(255) && reg(&m, 5) < 0xF0);
    let mut n = 0;
    while n < 4 && !(n > 0 && (at(&m, 0x165) || at(&m, 0x169))) {
        step(&mut m);
        n += 1;
    }
    vassert!(m.state == State::Running, "C09.L.mul.keeps-running");
    vassert!(at(&m, 0x165) || at(&m, 0x169), "C09.L.mul.back-at-head-or-exit-within-4-words");
    if at(&m, 0x165) {
        vassert!(m.alu_output.output() < v0 || v0 == 0, "C09.L.mul.variant-decreases");
        vassert!(v0 != 0, "C09.L.mul.zero-leaves-the-loop");
        vassert!(m.alu_output.output() == v0 >> 1, "C09.L.mul.variant-is-shift");
    }
}

#[cfg_attr(kani, kani::proof)]
#[cfg_attr(kani, kani::unwind(12))]
pub(crate) fn c09_div_variant() {
    let mut m = any_raw();
    vassume(wf_raw(&m));
    vassume(m.state == State::Running && m.pending_wait_for_memory.is_none());
    vassume(at(&m, 0x187) && ir(&m) >> 4 == 0xC);
    let rd = (ir(&m) & 3) as usize;
    vassume(m.pending_register_write == Some(RegisterNumber::from_u8(rd as u8).unwrap()));
    vassume(m.stacksize == Stacksize::_0 && m.programsize == Programsize::Size(255) && reg(&m, 5) < 0xF0);
    // loop invariant part needed for the variant: R6 holds the complement of a non-zero divisor
    let r6 = reg(&m, 6);
    vassume(r6 != 0xFF);
    let v0 = m.alu_output.output();
    vcover!(v0 == 7, "pre.some-value");
    let mut n = 0;
    while n < 2 && !(n > 0 && (at(&m, 0x187) || at(&m, 0x189))) {
        step(&mut m);
        n += 1;
    }
    vassert!(m.state == State::Running, "C09.L.div.keeps-running");
    vassert!(at(&m, 0x187) || at(&m, 0x189), "C09.L.div.back-at-head-or-exit-within-2-words");
    if at(&m, 0x187) {
        vassert!(reg(&m, 6) == r6, "C09.L.div.divisor-kept");
        // either the next pass leaves the loop (borrow) or the remainder strictly decreased
        vassert!(m.alu_output.carry_out() || m.alu_output.output() < v0, "C09.L.div.variant-decreases");
    }
}

#[cfg_attr(kani, kani::proof)]
pub(crate) fn c09_canary() {
    let addr: usize = vany();
    let ir: u8 = vany();
    let (flags, co, zo, no, iff, byte): (u8, bool, bool, bool, bool, u8) = (vany(), vany(), vany(), vany(), vany(), vany());
    vassume(addr < 512 && in_cert(addr, ir));
    let w = word_at(addr);
    vassume(!is_first_fetch(w) && !is_second_fetch(w));
    let (a2, _) = control_step(addr, ir, flags, co, zo, no, iff, byte);
    // wrong on purpose: claims the rank decreases everywhere, also around the MUL/DIV back edges
    vassert!(a2 < 512 && CERT_RANK[a2] < CERT_RANK[addr], "CANARY");
}

/// Native walker (certificate generation only; decides nothing): breadth-first search over the
/// control space through `control_step`, i.e. through the real sequencer code.
#[cfg(verif_replay)]
pub(crate) fn gen_c09_dump() {
    use std::collections::{BTreeSet, VecDeque};
    fn walk(starts: &[(usize, u8)], follow_all_first: bool, tag: &str) {
        let mut seen: BTreeSet<(usize, u8)> = BTreeSet::new();
        let mut q: VecDeque<(usize, u8)> = VecDeque::new();
        for s in starts {
            if seen.insert(*s) {
                q.push_back(*s);
            }
        }
        while let Some((a, i)) = q.pop_front() {
            let w = word_at(a);
            let mut succ: BTreeSet<(usize, u8)> = BTreeSet::new();
            let fetch1 = is_first_fetch(w);
            let fetch2 = is_second_fetch(w);
            for inp in 0..256u32 {
                let flags = (inp & 15) as u8;
                let (co, zo, no, iff) = (inp & 16 != 0, inp & 32 != 0, inp & 64 != 0, inp & 128 != 0);
                if fetch1 || fetch2 {
                    for byte in 0..=255u8 {
                        if fetch1 && !follow_all_first && undefined_first(byte) {
                            continue;
                        }
                        if fetch1 && follow_all_first {
                            continue; // the stuck walk never passes a fetch
                        }
                        if fetch2 && !defined_second(byte) {
                            continue;
                        }
                        succ.insert(control_step(a, i, flags, co, zo, no, iff, byte));
                    }
                } else {
                    succ.insert(control_step(a, i, flags, co, zo, no, iff, 0));
                }
            }
            for s in succ {
                println!("{} {} {} {} {}", tag, a, i, s.0, s.1);
                if s.0 < 512 && seen.insert(s) {
                    q.push_back(s);
                }
            }
        }
    }
    for a in 0..512 {
        if is_first_fetch(word_at(a)) {
            println!("F {}", a);
        }
    }
    let m = RawMachine::new();
    walk(&[(maddr(&m), ir(&m))], false, "D");
    // undefined first bytes: start at their dispatch targets from any fetch word
    let mut starts = vec![];
    for a in 0..512 {
        if is_first_fetch(word_at(a)) {
            for byte in 0..=255u8 {
                if undefined_first(byte) {
                    starts.push(control_step(a, 0, 0, false, false, false, false, byte));
                }
            }
        }
    }
    walk(&starts, true, "U");
}
#[cfg(not(verif_replay))]
pub(crate) fn gen_c09_dump() {}

crate::replay_table!(verif_replay_c09; c09_step, c09_stuck, c09_init, c09_mul_variant, c09_div_variant, c09_canary, gen_c09_dump,);
