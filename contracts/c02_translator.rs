// C02 / C06 — contracts of the translator (injected as `compiler::verif_c02`).
//
// `enc_ref` is the documented encoding: the opcode map is the dispatch layout of the control store
// (high nibble selects the routine; `MM RR` = addressing mode / register fields with 00 = R, 01 = (R),
// 10 = (R+), 11 = ((R+)); constants are `(PC+)`, absolute addresses `((PC+))`), two-byte forms are
// 0xF0|MM RR [const] second|MM RR [addr] with second = 0x10 MOV, 0x20 CMP, 0x30 BITT, 0x40 LDSP,
// 0x44 LDFR, 0x50 BITS, 0x60 BITC; relative jumps carry target - (address + 2) mod 256.
// Label texts are fixed strings here: the functions under contract never inspect a label's text
// except as a map key (parametricity assumption, listed in evidence).
use super::*;
use crate::verif_shim::*;
use crate::{vassert, vcover};

#[derive(Clone, Copy, PartialEq)]
pub(crate) enum Item {
    B(u8),
    L(&'static str),
    /// relative offset to the label, computed for an instruction at this address
    Rel(&'static str, u8),
}

pub(crate) const SRC_LABEL: &str = "Src";
pub(crate) const DST_LABEL: &str = "dsT";

// ------------------------------------------------------------------------ symbolic AST pieces
pub(crate) fn any_reg() -> Register {
    let n: u8 = vany();
    vassume(n < 4);
    match n {
        0 => Register::R0,
        1 => Register::R1,
        2 => Register::R2,
        _ => Register::R3,
    }
}
fn regno(r: Register) -> u8 {
    match r {
        Register::R0 => 0,
        Register::R1 => 1,
        Register::R2 => 2,
        Register::R3 => 3,
    }
}
pub(crate) fn any_constant(label: &'static str) -> Constant {
    if vany() {
        Constant::Constant(vany())
    } else {
        Constant::Label(label.to_string())
    }
}
/// all source operand shapes the grammar admits
pub(crate) fn any_source() -> Source {
    let k: u8 = vany();
    vassume(k < 6);
    match k {
        0 => Source::Register(any_reg()),
        1 => Source::MemAddress(MemAddress::Register(any_reg())),
        2 => Source::MemAddress(MemAddress::Constant(any_constant(SRC_LABEL))),
        3 => Source::Constant(any_constant(SRC_LABEL)),
        4 => Source::RegisterDi(RegisterDi(any_reg())),
        _ => Source::RegisterDdi(RegisterDdi(any_reg())),
    }
}
pub(crate) fn any_destination() -> Destination {
    let k: u8 = vany();
    vassume(k < 5);
    match k {
        0 => Destination::Register(any_reg()),
        1 => Destination::MemAddress(MemAddress::Register(any_reg())),
        2 => Destination::MemAddress(MemAddress::Constant(any_constant(DST_LABEL))),
        3 => Destination::RegisterDi(RegisterDi(any_reg())),
        _ => Destination::RegisterDdi(RegisterDdi(any_reg())),
    }
}

// --------------------------------------------------------------------------- reference encoding
fn const_item(c: &Constant, label: &'static str) -> Item {
    match c {
        Constant::Constant(c) => Item::B(*c),
        Constant::Label(_) => Item::L(label),
    }
}
/// (mode, register, optional following byte) of a source operand
pub(crate) fn src_ref(s: &Source) -> (u8, u8, Option<Item>) {
    match s {
        Source::Register(r) => (0b00, regno(*r), None),
        Source::MemAddress(MemAddress::Register(r)) => (0b01, regno(*r), None),
        Source::RegisterDi(RegisterDi(r)) => (0b10, regno(*r), None),
        Source::RegisterDdi(RegisterDdi(r)) => (0b11, regno(*r), None),
        // a constant is read through the program counter: (PC+)
        Source::Constant(c) => (0b10, 3, Some(const_item(c, SRC_LABEL))),
        // an absolute address likewise: ((PC+))
        Source::MemAddress(MemAddress::Constant(c)) => (0b11, 3, Some(const_item(c, SRC_LABEL))),
    }
}
pub(crate) fn dst_ref(d: &Destination) -> (u8, u8, Option<Item>) {
    match d {
        Destination::Register(r) => (0b00, regno(*r), None),
        Destination::MemAddress(MemAddress::Register(r)) => (0b01, regno(*r), None),
        Destination::RegisterDi(RegisterDi(r)) => (0b10, regno(*r), None),
        Destination::RegisterDdi(RegisterDdi(r)) => (0b11, regno(*r), None),
        Destination::MemAddress(MemAddress::Constant(c)) => (0b11, 3, Some(const_item(c, DST_LABEL))),
    }
}

pub(crate) struct Enc {
    pub items: [Item; 4],
    pub len: usize,
}
impl Enc {
    fn new() -> Self {
        Enc { items: [Item::B(0); 4], len: 0 }
    }
    fn push(&mut self, i: Item) {
        self.items[self.len] = i;
        self.len += 1;
    }
    fn one(b: u8) -> Self {
        let mut e = Enc::new();
        e.push(Item::B(b));
        e
    }
}
/// two-byte form: 0xF0|src, [const], second|dst, [addr]
fn two_byte(second: u8, dst: Option<&Destination>, src: &Source) -> Enc {
    let mut e = Enc::new();
    let (sm, sr, sx) = src_ref(src);
    e.push(Item::B(0xF0 | (sm << 2) | sr));
    if let Some(x) = sx {
        e.push(x);
    }
    match dst {
        Some(d) => {
            let (dm, dr, dx) = dst_ref(d);
            e.push(Item::B(second | (dm << 2) | dr));
            if let Some(x) = dx {
                e.push(x);
            }
        }
        None => e.push(Item::B(second)),
    }
    e
}
fn two_regs(base: u8, rd: Register, rs: Register) -> Enc {
    Enc::one(base | (regno(rs) << 2) | regno(rd))
}
fn rel(cond: u8, addr: u8) -> Enc {
    let mut e = Enc::new();
    e.push(Item::B(0x20 | cond));
    e.push(Item::Rel(SRC_LABEL, addr));
    e
}

/// Reference encoding of every instruction that emits at most four items (everything except the
/// data directives, which are handled by their own clauses).  `addr` = address of the instruction.
pub(crate) fn enc_ref(inst: &Instruction, addr: u8) -> Enc {
    use Instruction::*;
    match inst {
        Clr(r) => Enc::one(0x04 | regno(*r)),
        Add(d, s) => two_regs(0x60, *d, *s),
        Adc(d, s) => two_regs(0x70, *d, *s),
        Sub(d, s) => two_regs(0x80, *d, *s),
        And(d, s) => two_regs(0x90, *d, *s),
        Or(d, s) => two_regs(0xA0, *d, *s),
        Mul(d, s) => two_regs(0xB0, *d, *s),
        Div(d, s) => two_regs(0xC0, *d, *s),
        Xor(d, s) => two_regs(0xD0, *d, *s),
        Lsl(r) => two_regs(0x60, *r, *r), // ADD Rn,Rn
        Rlc(r) => two_regs(0x70, *r, *r), // ADC Rn,Rn
        Inc(r) => Enc::one(0x44 | regno(*r)),
        Dec(s) => {
            // one-byte form 0x50|MM RR, a constant / address byte follows for the PC-relative modes
            let (m, r, x) = src_ref(s);
            let mut e = Enc::one(0x50 | (m << 2) | r);
            if let Some(x) = x {
                e.push(x);
            }
            e
        }
        Neg(r) => Enc::one(0x34 | regno(*r)),
        Com(r) => Enc::one(0x30 | regno(*r)),
        Tst(r) => Enc::one(0x48 | regno(*r)),
        Lsr(r) => Enc::one(0x38 | regno(*r)),
        Asr(r) => Enc::one(0x3C | regno(*r)),
        Rrc(r) => Enc::one(0x40 | regno(*r)),
        Push(r) => Enc::one(0x10 | regno(*r)),
        Pop(r) => Enc::one(0x14 | regno(*r)),
        PushF => Enc::one(0x18),
        PopF => Enc::one(0x1C),
        Ret => Enc::one(0x17),
        RetI => Enc::one(0x2C),
        Stop => Enc::one(0x01),
        Nop => Enc::one(0x02),
        Ei => Enc::one(0x08),
        Di => Enc::one(0x0C),
        Mov(d, s) => two_byte(0x10, Some(d), s),
        Cmp(d, s) => two_byte(0x20, Some(d), s),
        Bitt(d, s) => two_byte(0x30, Some(d), s),
        Bits(d, s) => two_byte(0x50, Some(d), s),
        Bitc(d, s) => two_byte(0x60, Some(d), s),
        Ldsp(s) => two_byte(0x40, None, s),
        Ldfr(s) => two_byte(0x44, None, s),
        LdConstant(r, c) => two_byte(0x10, Some(&Destination::Register(*r)), &Source::Constant(c.clone())),
        LdMemAddress(r, m) => two_byte(0x10, Some(&Destination::Register(*r)), &Source::MemAddress(m.clone())),
        St(m, r) => two_byte(0x10, Some(&Destination::MemAddress(m.clone())), &Source::Register(*r)),
        // JMP = MOV PC, (PC+)
        Jmp(_) => {
            let mut e = Enc::new();
            e.push(Item::B(0xFB));
            e.push(Item::L(SRC_LABEL));
            e.push(Item::B(0x13));
            e
        }
        Jr(_) => rel(0b000, addr),
        Jcs(_) => rel(0b001, addr),
        Jzs(_) => rel(0b010, addr),
        Jns(_) => rel(0b011, addr),
        Jcc(_) => rel(0b101, addr),
        Jzc(_) => rel(0b110, addr),
        Jnc(_) => rel(0b111, addr),
        Call(_) => {
            let mut e = Enc::new();
            e.push(Item::B(0x28));
            e.push(Item::L(SRC_LABEL));
            e
        }
        _ => Enc::new(),
    }
}

/// Does the emitted item equal the reference item (closures compared extensionally)?
pub(crate) fn item_matches(got: &ByteOrLabel, want: &Item) -> bool {
    match (got, want) {
        (ByteOrLabel::Byte(b), Item::B(w)) => b == w,
        (ByteOrLabel::Label(l), Item::L(w)) => l.as_str() == *w,
        (ByteOrLabel::LabelFn(l, f), Item::Rel(w, addr)) => {
            let t: u8 = vany();
            l.as_str() == *w && (**f)(t) == t.wrapping_sub(addr.wrapping_add(2))
        }
        _ => false,
    }
}
pub(crate) fn items_match(got: &[ByteOrLabel], want: &Enc) -> bool {
    if got.len() != want.len {
        return false;
    }
    let mut ok = true;
    let mut i = 0;
    while i < want.len {
        ok = ok && item_matches(&got[i], &want.items[i]);
        i += 1;
    }
    ok
}

// ---------------------------------------------------------------- symbolic instructions by family
fn dest_shape(k: u8) -> Destination {
    match k {
        0 => Destination::Register(any_reg()),
        1 => Destination::MemAddress(MemAddress::Register(any_reg())),
        2 => Destination::MemAddress(MemAddress::Constant(any_constant(DST_LABEL))),
        3 => Destination::RegisterDi(RegisterDi(any_reg())),
        _ => Destination::RegisterDdi(RegisterDdi(any_reg())),
    }
}

/// A translator in an arbitrary state as far as `push_instruction` can observe it: symbolic address
/// counter and limits, no lines yet, empty label table.
pub(crate) fn any_translator() -> Translator {
    let mut t = Translator::new();
    t.next_addr = vany();
    t
}

fn check_push(tr: &mut Translator, inst: Instruction, want: &Enc) {
    let a0 = tr.next_addr;
    let n_lines = tr.bytes.len();
    let (ss, ps) = (tr.stacksize, tr.programsize);
    let comment = if vany() { Some("c".to_string()) } else { None };
    tr.push_instruction(&inst, &comment);
    vassert!(tr.bytes.len() == n_lines + 1, "C02.P.push.one-line-recorded");
    let (line, bols) = &tr.bytes[n_lines];
    vassert!(items_match(bols, want), "C02.P.push.items-are-documented-encoding");
    vassert!(tr.next_addr == a0.wrapping_add(want.len as u8), "C02.P.push.address-counter-advances-by-emitted-bytes");
    vassert!(*line == Line::Instruction(inst, comment), "C02.P.push.line-reported-with-its-bytes");
    vassert!(tr.known_labels.is_empty(), "C02.P.push.label-table-untouched");
    vassert!(tr.stacksize == ss && tr.programsize == ps, "C02.P.push.limits-untouched");
}

/// push_one without the (expensive) structural comparison of the recorded `Line`: items, address
/// counter, label table and limits only.
macro_rules! push_light {
    ($name:ident, $inst:expr) => {
        #[cfg_attr(kani, kani::proof)]
        #[cfg_attr(kani, kani::unwind(8))]
        #[cfg_attr(kani, kani::stub(std::hash::RandomState::new, fixed_random_state))]
        pub(crate) fn $name() {
            let mut tr = any_translator();
            vassume(tr.next_addr <= 0xEF - 4);
            #[allow(unused_imports)]
            use Instruction::*;
            let inst: Instruction = $inst;
            vcover!(true, "pre");
            let want = enc_ref(&inst, tr.next_addr);
            let a0 = tr.next_addr;
            let (ss, ps) = (tr.stacksize, tr.programsize);
            tr.push_instruction(&inst, &None);
            vassert!(tr.bytes.len() == 1, "C02.P.push.one-line-recorded");
            vassert!(items_match(&tr.bytes[0].1, &want), "C02.P.push.items-are-documented-encoding");
            vassert!(tr.next_addr == a0.wrapping_add(want.len as u8), "C02.P.push.address-counter-advances-by-emitted-bytes");
            vassert!(tr.known_labels.is_empty(), "C02.P.push.label-table-untouched");
            vassert!(tr.stacksize == ss && tr.programsize == ps, "C02.P.push.limits-untouched");
            std::mem::forget(tr);
            std::mem::forget(inst);
        }
    };
}
macro_rules! push_one {
    ($name:ident, $inst:expr) => {
        #[cfg_attr(kani, kani::proof)]
        #[cfg_attr(kani, kani::unwind(8))]
        #[cfg_attr(kani, kani::stub(std::hash::RandomState::new, fixed_random_state))]
        pub(crate) fn $name() {
            let mut tr = any_translator();
            vassume(tr.next_addr <= 0xEF - 4);
            #[allow(unused_imports)]
            use Instruction::*;
            let inst: Instruction = $inst;
            vcover!(true, "pre");
            let want = enc_ref(&inst, tr.next_addr);
            check_push(&mut tr, inst, &want);
            std::mem::forget(tr);
        }
    };
}
fn src_shape(k: u8) -> Source {
    match k {
        0 => Source::Register(any_reg()),
        1 => Source::MemAddress(MemAddress::Register(any_reg())),
        2 => Source::MemAddress(MemAddress::Constant(Constant::Constant(vany()))),
        3 => Source::Constant(Constant::Constant(vany())),
        4 => Source::RegisterDi(RegisterDi(any_reg())),
        5 => Source::RegisterDdi(RegisterDdi(any_reg())),
        6 => Source::MemAddress(MemAddress::Constant(Constant::Label(SRC_LABEL.to_string()))),
        _ => Source::Constant(Constant::Label(SRC_LABEL.to_string())),
    }
}
fn dst_shape(k: u8) -> Destination {
    match k {
        0 => Destination::Register(any_reg()),
        1 => Destination::MemAddress(MemAddress::Register(any_reg())),
        2 => Destination::MemAddress(MemAddress::Constant(Constant::Constant(vany()))),
        3 => Destination::RegisterDi(RegisterDi(any_reg())),
        4 => Destination::RegisterDdi(RegisterDdi(any_reg())),
        _ => Destination::MemAddress(MemAddress::Constant(Constant::Label(DST_LABEL.to_string()))),
    }
}
/// E.mov / E.ds / E.s: the three vector-building encoders against the reference, one operand-shape
/// pair per harness (registers and numeric constants symbolic).
macro_rules! enc_mov {
    ($name:ident, $d:expr, $s:expr) => {
        #[cfg_attr(kani, kani::proof)]
        #[cfg_attr(kani, kani::unwind(8))]
        pub(crate) fn $name() {
            let d = dst_shape($d);
            let s = src_shape($s);
            vcover!(true, "pre");
            let want = two_byte(0x10, Some(&d), &s);
            let got = compile_instruction_mov(d, s);
            vassert!(items_match(&got, &want), "C02.E.mov.items-are-documented-encoding");
            std::mem::forget(got);
        }
    };
}
macro_rules! enc_ds {
    ($name:ident, $d:expr, $s:expr) => {
        #[cfg_attr(kani, kani::proof)]
        #[cfg_attr(kani, kani::unwind(8))]
        pub(crate) fn $name() {
            let d = dst_shape($d);
            let s = src_shape($s);
            let sel: u8 = vany();
            vassume(sel < 4);
            let b2 = [0x20u8, 0x30, 0x50, 0x60][sel as usize];
            vcover!(true, "pre");
            let want = two_byte(b2, Some(&d), &s);
            let got = from_bases_dst_and_src(0xF0, b2, &d, &s);
            vassert!(items_match(&got, &want), "C02.E.ds.items-are-documented-encoding");
            std::mem::forget(got);
            std::mem::forget(d);
            std::mem::forget(s);
        }
    };
}
macro_rules! enc_s {
    ($name:ident, $s:expr) => {
        #[cfg_attr(kani, kani::proof)]
        #[cfg_attr(kani, kani::unwind(8))]
        pub(crate) fn $name() {
            let s = src_shape($s);
            let b2 = if vany() { 0x40u8 } else { 0x44 };
            vcover!(true, "pre");
            let want = two_byte(b2, None, &s);
            let got = from_bases_and_src(0xF0, b2, &s);
            vassert!(items_match(&got, &want), "C02.E.s.items-are-documented-encoding");
            std::mem::forget(got);
            std::mem::forget(s);
        }
    };
}
enc_mov!(c02_e_mov_0_0, 0, 0);
enc_ds!(c02_e_ds_0_0, 0, 0);
enc_mov!(c02_e_mov_0_4, 0, 4);
enc_ds!(c02_e_ds_0_4, 0, 4);
enc_mov!(c02_e_mov_0_5, 0, 5);
enc_ds!(c02_e_ds_0_5, 0, 5);
enc_mov!(c02_e_mov_1_0, 1, 0);
enc_ds!(c02_e_ds_1_0, 1, 0);
enc_mov!(c02_e_mov_1_4, 1, 4);
enc_ds!(c02_e_ds_1_4, 1, 4);
enc_mov!(c02_e_mov_1_5, 1, 5);
enc_ds!(c02_e_ds_1_5, 1, 5);
enc_mov!(c02_e_mov_3_0, 3, 0);
enc_ds!(c02_e_ds_3_0, 3, 0);
enc_mov!(c02_e_mov_3_4, 3, 4);
enc_ds!(c02_e_ds_3_4, 3, 4);
enc_mov!(c02_e_mov_3_5, 3, 5);
enc_ds!(c02_e_ds_3_5, 3, 5);
enc_mov!(c02_e_mov_4_0, 4, 0);
enc_ds!(c02_e_ds_4_0, 4, 0);
enc_mov!(c02_e_mov_4_4, 4, 4);
enc_ds!(c02_e_ds_4_4, 4, 4);
enc_mov!(c02_e_mov_4_5, 4, 5);
enc_ds!(c02_e_ds_4_5, 4, 5);
enc_s!(c02_e_s_0, 0);
enc_s!(c02_e_s_4, 4);
enc_s!(c02_e_s_5, 5);
enc_mov!(c02_e_mov_0_3, 0, 3);
enc_mov!(c02_e_mov_0_7, 0, 7);
enc_mov!(c02_e_mov_3_3, 3, 3);
enc_mov!(c02_e_mov_3_7, 3, 7);
enc_mov!(c02_e_mov_4_7, 4, 7);
enc_mov!(c02_e_mov_0_1, 0, 1);
enc_mov!(c02_e_mov_0_2, 0, 2);
enc_mov!(c02_e_mov_0_6, 0, 6);
enc_mov!(c02_e_mov_2_0, 2, 0);
enc_ds!(c02_e_ds_2_0, 2, 0);
enc_mov!(c02_e_mov_2_4, 2, 4);
enc_ds!(c02_e_ds_2_4, 2, 4);
enc_mov!(c02_e_mov_2_5, 2, 5);
enc_ds!(c02_e_ds_2_5, 2, 5);
enc_mov!(c02_e_mov_3_1, 3, 1);
enc_mov!(c02_e_mov_3_2, 3, 2);
enc_mov!(c02_e_mov_3_6, 3, 6);
enc_mov!(c02_e_mov_4_1, 4, 1);
enc_mov!(c02_e_mov_4_2, 4, 2);
enc_mov!(c02_e_mov_4_6, 4, 6);
enc_mov!(c02_e_mov_5_0, 5, 0);
enc_ds!(c02_e_ds_5_0, 5, 0);
enc_mov!(c02_e_mov_5_4, 5, 4);
enc_ds!(c02_e_ds_5_4, 5, 4);
enc_mov!(c02_e_mov_5_5, 5, 5);
enc_ds!(c02_e_ds_5_5, 5, 5);
enc_s!(c02_e_s_1, 1);
enc_s!(c02_e_s_2, 2);
enc_s!(c02_e_s_6, 6);
enc_s!(c02_e_s_7, 7);

/// The mode / register field functions for every operand shape (pure functions).
#[cfg_attr(kani, kani::proof)]
#[cfg_attr(kani, kani::unwind(8))]
pub(crate) fn c02_field_encoders() {
    let ks: u8 = vany();
    let kd: u8 = vany();
    vassume(ks < 6 && kd < 5);
    let s = src_shape(ks);
    let d = dst_shape(kd);
    vcover!(ks == 3, "pre.constant");
    let (sm, sr, _) = src_ref(&s);
    let (dm, dr, _) = dst_ref(&d);
    vassert!(source_addr_mode(&s) == sm && source_register(&s) == sr, "C02.E.fields.source-mode-and-register");
    vassert!(destination_addr_mode(&d) == dm && destination_register(&d) == dr, "C02.E.fields.destination-mode-and-register");
    let r = any_reg();
    vassert!(reg_to_u8(r) == regno(r), "C02.E.fields.register-number");
    std::mem::forget(s);
    std::mem::forget(d);
}

// one harness per instruction variant (the variant must be concrete: a symbolic discriminant makes the
// verifier explore every arm of the translator's match, including the hash-map ones)
push_one!(c02_p_clr, Clr(any_reg()));
push_one!(c02_p_inc, Inc(any_reg()));
push_one!(c02_p_dec, Dec(Source::Register(any_reg())));
push_one!(c02_p_add, Add(any_reg(), any_reg()));
push_one!(c02_p_adc, Adc(any_reg(), any_reg()));
push_one!(c02_p_sub, Sub(any_reg(), any_reg()));
push_one!(c02_p_mul, Mul(any_reg(), any_reg()));
push_one!(c02_p_div, Div(any_reg(), any_reg()));
push_one!(c02_p_xor, Xor(any_reg(), any_reg()));
push_one!(c02_p_and, And(any_reg(), any_reg()));
push_one!(c02_p_or, Or(any_reg(), any_reg()));
push_one!(c02_p_neg, Neg(any_reg()));
push_one!(c02_p_com, Com(any_reg()));
push_one!(c02_p_tst, Tst(any_reg()));
push_one!(c02_p_lsr, Lsr(any_reg()));
push_one!(c02_p_asr, Asr(any_reg()));
push_one!(c02_p_lsl, Lsl(any_reg()));
push_one!(c02_p_rrc, Rrc(any_reg()));
push_one!(c02_p_rlc, Rlc(any_reg()));
push_one!(c02_p_push, Push(any_reg()));
push_one!(c02_p_pop, Pop(any_reg()));
push_one!(c02_p_pushf, PushF);
push_one!(c02_p_popf, PopF);
push_one!(c02_p_ret, Ret);
push_one!(c02_p_reti, RetI);
push_one!(c02_p_stop, Stop);
push_one!(c02_p_nop, Nop);
push_one!(c02_p_ei, Ei);
push_one!(c02_p_di, Di);
push_one!(c02_p_jmp, Jmp(SRC_LABEL.to_string()));
push_one!(c02_p_jr, Jr(SRC_LABEL.to_string()));
push_one!(c02_p_call, Call(SRC_LABEL.to_string()));
push_one!(c02_p_jcs, Jcs(SRC_LABEL.to_string()));
push_one!(c02_p_jcc, Jcc(SRC_LABEL.to_string()));
push_one!(c02_p_jzs, Jzs(SRC_LABEL.to_string()));
push_one!(c02_p_jzc, Jzc(SRC_LABEL.to_string()));
push_one!(c02_p_jns, Jns(SRC_LABEL.to_string()));
push_one!(c02_p_jnc, Jnc(SRC_LABEL.to_string()));

/// DEC with the memory operand forms 0x54-0x5F of the control store (one operand shape per harness).
push_one!(c02_x_ldsp_r, Ldsp(src_shape(0)));
push_one!(c02_x_ld_const, LdConstant(any_reg(), Constant::Constant(vany())));
push_one!(c02_x_st_r, St(MemAddress::Register(any_reg()), any_reg()));
push_one!(c02_p_dec_ind, Dec(src_shape(1)));
push_one!(c02_p_dec_inc, Dec(src_shape(4)));
push_one!(c02_p_dec_dinc, Dec(src_shape(5)));
push_one!(c02_p_dec_const, Dec(src_shape(3)));
push_one!(c02_p_dec_abs, Dec(src_shape(2)));

/// Directives: .ORG forward (zero fill up to the address), .BYTE n (n zero bytes), .DB, .DW
/// (big-endian), *STACKSIZE, *PROGRAMSIZE.  BOUNDED: fill lengths <= 5, .DB <= 3, .DW <= 2 elements.
fn directives(k: u8) {
    let mut tr = any_translator();
    vassume(tr.next_addr <= 0xEF - 6);
    let a0 = tr.next_addr;
    let n: u8 = vany();
    vassume(n <= 5);
    let data: [u8; 3] = vany();
    let words: [u16; 2] = [vany(), vany()];
    let len: usize = vany();
    // every value the directives can carry, NOSET included
    let sel: u8 = vany();
    vassume(sel < 6);
    let given_ss = match sel {
        0 => Stacksize::_0,
        1 => Stacksize::_16,
        2 => Stacksize::_32,
        3 => Stacksize::_48,
        4 => Stacksize::_64,
        _ => Stacksize::NotSet,
    };
    let given_ps = match sel {
        0 | 1 | 2 => Programsize::Size(vany()),
        3 | 4 => Programsize::Auto,
        _ => Programsize::NotSet,
    };
    vcover!(n == 5, "pre.n-5");
    vcover!(sel == 5, "pre.noset");
    let inst = match k {
        0 => Instruction::AsmOrigin(a0 + n),
        1 => Instruction::AsmByte(n),
        2 => {
            vassume(len <= 3);
            Instruction::AsmDefineBytes(data[..len].to_vec())
        }
        3 => {
            vassume(len <= 2);
            Instruction::AsmDefineWords(words[..len].to_vec())
        }
        4 => Instruction::AsmStacksize(given_ss),
        _ => Instruction::AsmProgramsize(given_ps),
    };
    let (ss, ps) = (tr.stacksize, tr.programsize);
    tr.push_instruction(&inst, &None);
    vassert!(tr.bytes.len() == 1, "C02.D.one-line-recorded");
    let bols = &tr.bytes[0].1;
    let expected_len = match k {
        0 | 1 => n as usize,
        2 => len,
        3 => 2 * len,
        _ => 0,
    };
    vassert!(bols.len() == expected_len, "C02.D.emitted-length");
    vassert!(tr.next_addr == a0 + expected_len as u8, "C02.D.address-counter-advances-by-emitted-bytes");
    let i: usize = vany();
    if i < expected_len {
        let want = match k {
            0 | 1 => 0,
            2 => data[i],
            _ => {
                let w = words[i / 2];
                if i % 2 == 0 { (w >> 8) as u8 } else { (w & 0xFF) as u8 }
            }
        };
        vassert!(matches!(&bols[i], ByteOrLabel::Byte(b) if *b == want), "C02.D.fill-and-data-bytes");
    }
    vcover!(true, "post.limit-clauses-reached");
    if k == 4 {
        vassert!(tr.stacksize == given_ss && tr.programsize == ps, "C02.D.stacksize-recorded-as-written");
    } else if k == 5 {
        vassert!(tr.programsize == given_ps && tr.stacksize == ss, "C02.D.programsize-recorded-as-written");
    } else {
        vassert!(tr.stacksize == ss && tr.programsize == ps, "C02.D.limits-untouched");
    }
    vassert!(tr.known_labels.is_empty(), "C02.D.label-table-untouched");
}

macro_rules! directive {
    ($name:ident, $k:expr) => {
        #[cfg_attr(kani, kani::proof)]
        #[cfg_attr(kani, kani::unwind(8))]
        #[cfg_attr(kani, kani::stub(std::hash::RandomState::new, fixed_random_state))]
        pub(crate) fn $name() {
            directives($k)
        }
    };
}
directive!(c02_d_org, 0);
directive!(c02_d_byte, 1);
directive!(c02_d_stacksize, 4);
directive!(c02_d_programsize, 5);

/// Labels and .EQU define names; `finish` substitutes them (case-insensitively) and applies relative
/// offsets; bytes and the line association are untouched.
// NOT DECIDED: hash-map look-ups (SipHash + hashbrown probing over heap strings) exhaust the verifier's
// memory; the obligation is kept here as the statement of the clause but is not registered as a harness.
#[allow(dead_code)]
pub(crate) fn c02_labels_and_finish() {
    let mut tr = any_translator();
    vassume(tr.next_addr <= 0xE0);
    let a0 = tr.next_addr;
    let equ: u8 = vany();
    let pad: u8 = vany();
    vcover!(true, "pre");
    // Src:  (label line)       -> address a0
    tr.push(&Line::Label("Src".to_string(), None));
    vassert!(tr.next_addr == a0 && tr.bytes.len() == 1 && tr.bytes[0].1.is_empty(), "C02.L.label-line-emits-nothing");
    // .EQU dsT, equ
    tr.push(&Line::Instruction(Instruction::AsmEquals("dsT".to_string(), equ), None));
    vassert!(tr.next_addr == a0 && tr.bytes[1].1.is_empty(), "C02.L.equ-emits-nothing");
    //   .DB pad
    tr.push(&Line::Instruction(Instruction::AsmDefineBytes(vec![pad]), None));
    //   JZS src            (reference in another letter case)
    tr.push(&Line::Instruction(Instruction::Jzs("src".to_string()), None));
    //   ST (DST), R1
    tr.push(&Line::Instruction(Instruction::St(MemAddress::Constant(Constant::Label("DST".to_string())), Register::R1), None));
    let stack = tr.stacksize;
    let prog = tr.programsize;
    let code = tr.finish();
    vassert!(code.lines.len() == 5, "C02.F.every-line-reported");
    vassert!(code.lines[0].1.is_empty() && code.lines[1].1.is_empty(), "C02.F.definitions-have-no-bytes");
    vassert!(code.lines[2].1.len() == 1 && code.lines[2].1[0] == pad, "C02.F.plain-bytes-untouched");
    // the label is the address of the byte that follows its definition: a0; the jump sits at a0 + 1
    let off = a0.wrapping_sub(a0.wrapping_add(1).wrapping_add(2));
    vassert!(code.lines[3].1.len() == 2 && code.lines[3].1[0] == 0x22 && code.lines[3].1[1] == off, "C02.F.relative-offset-to-label-any-case");
    vassert!(code.lines[4].1.len() == 3 && code.lines[4].1[0] == 0xF1 && code.lines[4].1[1] == 0x1F && code.lines[4].1[2] == equ,
        "C02.F.equ-constant-substituted-any-case");
    vassert!(code.stacksize == stack && code.programsize == prog, "C02.F.limits-reported");
    vassert!(matches!(&code.lines[3].0, Line::Instruction(Instruction::Jzs(l), None) if l.as_str() == "src"), "C02.F.lines-reported-as-written");
}

/// Stand-in for `RandomState::new()` (OS randomness is not available to the verifier): fixed keys.
/// `HashMap`'s observable behaviour does not depend on the keys.
#[cfg(kani)]
pub(crate) fn fixed_random_state() -> std::hash::RandomState {
    // SAFETY of the model: RandomState is two u64 keys
    unsafe { std::mem::transmute::<(u64, u64), std::hash::RandomState>((0x0123_4567_89AB_CDEF, 0x0F1E_2D3C_4B5A_6978)) }
}

#[cfg_attr(kani, kani::proof)]
#[cfg_attr(kani, kani::unwind(8))]
#[cfg_attr(kani, kani::stub(std::hash::RandomState::new, fixed_random_state))]
pub(crate) fn c02_canary() {
    let mut tr = any_translator();
    vassume(tr.next_addr <= 0xEF - 4);
    let inst = Instruction::Sub(any_reg(), any_reg());
    // wrong on purpose: claims SUB is encoded with base 0x90
    let mut want = enc_ref(&inst, tr.next_addr);
    if let Item::B(b) = want.items[0] {
        want.items[0] = Item::B(b ^ 0x10);
    }
    tr.push_instruction(&inst, &None);
    vassert!(items_match(&tr.bytes[0].1, &want), "CANARY");
}

crate::replay_table!(verif_replay_c02;
    c02_p_clr, c02_p_inc, c02_p_dec, c02_p_add, c02_p_adc, c02_p_sub, c02_p_mul, c02_p_div, c02_p_xor, c02_p_and, c02_p_or, c02_p_neg, c02_p_com, c02_p_tst, c02_p_lsr, c02_p_asr, c02_p_lsl, c02_p_rrc, c02_p_rlc, c02_p_push, c02_p_pop, c02_p_pushf, c02_p_popf, c02_p_ret, c02_p_reti, c02_p_stop, c02_p_nop, c02_p_ei, c02_p_di, c02_p_jmp, c02_p_jr, c02_p_call, c02_p_jcs, c02_p_jcc, c02_p_jzs, c02_p_jzc, c02_p_jns, c02_p_jnc, c02_p_dec_ind, c02_p_dec_inc, c02_p_dec_dinc, c02_p_dec_const, c02_p_dec_abs, c02_d_org, c02_d_byte, c02_d_stacksize, c02_d_programsize, c02_e_mov_0_0, c02_e_ds_0_0, c02_e_mov_0_4, c02_e_ds_0_4, c02_e_mov_0_5, c02_e_ds_0_5, c02_e_mov_1_0, c02_e_ds_1_0, c02_e_mov_1_4, c02_e_ds_1_4, c02_e_mov_1_5, c02_e_ds_1_5, c02_e_mov_3_0, c02_e_ds_3_0, c02_e_mov_3_4, c02_e_ds_3_4, c02_e_mov_3_5, c02_e_ds_3_5, c02_e_mov_4_0, c02_e_ds_4_0, c02_e_mov_4_4, c02_e_ds_4_4, c02_e_mov_4_5, c02_e_ds_4_5, c02_e_s_0, c02_e_s_4, c02_e_s_5, c02_e_mov_0_3, c02_e_mov_0_7, c02_e_mov_3_3, c02_e_mov_3_7, c02_e_mov_4_7, c02_e_mov_0_1, c02_e_mov_0_2, c02_e_mov_0_6, c02_e_mov_2_0, c02_e_ds_2_0, c02_e_mov_2_4, c02_e_ds_2_4, c02_e_mov_2_5, c02_e_ds_2_5, c02_e_mov_3_1, c02_e_mov_3_2, c02_e_mov_3_6, c02_e_mov_4_1, c02_e_mov_4_2, c02_e_mov_4_6, c02_e_mov_5_0, c02_e_ds_5_0, c02_e_mov_5_4, c02_e_ds_5_4, c02_e_mov_5_5, c02_e_ds_5_5, c02_e_s_1, c02_e_s_2, c02_e_s_6, c02_e_s_7,
    c02_x_ldsp_r, c02_x_ld_const, c02_x_st_r,
    c02_field_encoders, c02_canary,
);
