// C12 — contracts of `RunExpectations::verify` (complete) and of the scheduling loop of
// `RunnerConfig::run` (caller against callee contracts, BOUNDED) (injected as `runner::verif_c12`).
use super::*;
use crate::machine::verif_c12m::*;
use crate::machine::verif_st_machine::*;
use crate::machine::{RawMachine, StepMode};
use crate::verif_shim::*;
use crate::{vassert, vcover};

fn any_opt_u8() -> Option<u8> {
    if vany() {
        Some(vany())
    } else {
        None
    }
}

/// V.verify: Ok exactly when every stated expectation equals the final machine's value; otherwise
/// the error names the first mismatch (state, then FE, then FF) with both values.
#[cfg_attr(kani, kani::proof)]
pub(crate) fn c12_verify() {
    let exp = RunExpectations {
        state: if vany() { Some(any_state()) } else { None },
        output_fe: any_opt_u8(),
        output_ff: any_opt_u8(),
    };
    let machine = mk_machine(any_raw(), StepMode::Real);
    let config = RunnerConfig {
        max_cycles: 0,
        machine_config: MachineConfig::default(),
        program: "",
        interrupts: vec![],
        resets: vec![],
        _phantom: PhantomData,
    };
    let (st, fe, ff) = (machine.state(), machine.bus().output_fe(), machine.bus().output_ff());
    let result = RunResults { machine, emulated_cycles: vany(), time_taken: Duration::from_secs(0), config: &config, _phantom: PhantomData };
    vcover!(exp.state.is_some() && exp.output_fe.is_none() && exp.output_ff.is_some(), "pre.subset");
    let r = exp.verify(&result);
    let state_ok = exp.state.is_none() || exp.state == Some(st);
    let fe_ok = exp.output_fe.is_none() || exp.output_fe == Some(fe);
    let ff_ok = exp.output_ff.is_none() || exp.output_ff == Some(ff);
    vassert!(r.is_ok() == (state_ok && fe_ok && ff_ok), "C12.V.verify.ok-exactly-when-all-expectations-hold");
    match r {
        Ok(()) => {}
        Err(VerificationError::StateMismatch { expected, found }) => {
            vassert!(!state_ok && Some(expected) == exp.state && found == st, "C12.V.verify.reports-state-mismatch-with-values");
        }
        Err(VerificationError::OutputFeMismatch { expected, found }) => {
            vassert!(state_ok && !fe_ok && Some(expected) == exp.output_fe && found == fe, "C12.V.verify.reports-fe-mismatch-with-values");
        }
        Err(VerificationError::OutputFfMismatch { expected, found }) => {
            vassert!(state_ok && fe_ok && !ff_ok && Some(expected) == exp.output_ff && found == ff, "C12.V.verify.reports-ff-mismatch-with-values");
        }
    }
    std::mem::forget(result);
    std::mem::forget(config);
}

#[cfg(kani)]
fn stub_parse(_input: &str) -> Result<crate::parser::Asm, ParserError> {
    Ok(crate::parser::Asm { comment_after_shebang: None, lines: vec![] })
}
#[cfg(kani)]
fn stub_compile(_asm: &crate::parser::Asm) -> crate::compiler::ByteCode {
    crate::compiler::ByteCode { lines: vec![], stacksize: crate::parser::Stacksize::_16, programsize: crate::parser::Programsize::Auto }
}
#[cfg(kani)]
fn stub_now() -> Instant {
    // SAFETY of the model: an Instant is plain data; its value is never inspected by the contract
    unsafe { std::mem::zeroed() }
}
#[cfg(kani)]
fn stub_elapsed(_i: &Instant) -> Duration {
    Duration::from_secs(0)
}

/// V.run: the loop applies, for cycle i = 0, 1, ...: the interrupt scheduled for i (if any), then the
/// CPU reset scheduled for i (if any), then one clock edge; it stops after `max_cycles` cycles or right
/// after the first edge that leaves the machine not Running; `emulated_cycles` = edges issued.
/// BOUNDED: max_cycles <= 5, two interrupt and two reset entries (duplicates, cycle 0 and cycles
/// beyond the end allowed).
#[cfg(kani)]
#[kani::proof]
#[kani::unwind(8)]
#[kani::stub(crate::parser::AsmParser::parse, stub_parse)]
#[kani::stub(crate::compiler::Translator::compile, stub_compile)]
#[kani::stub(std::time::Instant::now, stub_now)]
#[kani::stub(std::time::Instant::elapsed, stub_elapsed)]
#[kani::stub(crate::machine::RawMachine::trigger_clock_edge, crate::machine::verif_c12m::abstract_edge)]
#[kani::stub(crate::machine::RawMachine::trigger_key_edge_interrupt, crate::machine::verif_c12m::abstract_interrupt)]
#[kani::stub(crate::machine::RawMachine::cpu_reset, crate::machine::verif_c12m::abstract_cpu_reset)]
pub(crate) fn c12_run_schedule() {
    let max: usize = kani::any();
    kani::assume(max <= 5);
    let (i0, i1, r0, r1): (usize, usize, usize, usize) = (kani::any(), kani::any(), kani::any(), kani::any());
    kani::assume(i0 <= 6 && i1 <= 6 && r0 <= 6 && r1 <= 6);
    let config = RunnerConfig {
        max_cycles: max,
        machine_config: MachineConfig::default(),
        program: "",
        interrupts: vec![i0, i1],
        resets: vec![r0, r1],
        _phantom: PhantomData,
    };
    unsafe {
        LEN = 0;
    }
    let res = config.run();
    kani::cover!(max == 3 && i0 == 0 && r0 == 2, "pre.some-schedule");
    let res = match res {
        Ok(r) => r,
        Err(_) => {
            kani::assert(false, "C12.V.run.parses");
            return;
        }
    };
    // replay the log against the reference schedule (entry 0 is the reset performed by the program load)
    let n = unsafe { LEN };
    kani::assert(n >= 1 && unsafe { LOG[0] } == OP_RESET, "C12.V.run.load-resets-first");
    let mut pos = 1;
    let mut cycle = 0;
    let mut edges = 0;
    let mut stopped = false;
    while cycle < max && !stopped {
        if cycle == i0 || cycle == i1 {
            kani::assert(pos < n && unsafe { LOG[pos] } == OP_INTERRUPT, "C12.V.run.interrupt-applied-at-its-cycle");
            pos += 1;
        }
        if cycle == r0 || cycle == r1 {
            kani::assert(pos < n && unsafe { LOG[pos] } == OP_RESET, "C12.V.run.reset-applied-at-its-cycle-after-interrupt");
            pos += 1;
        }
        kani::assert(pos < n && unsafe { LOG[pos] } == OP_EDGE, "C12.V.run.one-edge-per-cycle");
        stopped = !unsafe { RUNNING_AFTER[pos] };
        pos += 1;
        edges += 1;
        cycle += 1;
    }
    kani::assert(pos == n, "C12.V.run.nothing-else-applied");
    kani::assert(res.emulated_cycles == edges, "C12.V.run.reported-cycles-are-edges-issued");
    std::mem::forget(res);
}
#[cfg(not(kani))]
pub(crate) fn c12_run_schedule() {}

/// V.cfg: a machine created with a program and a configuration carries every configured input
/// (applied AFTER the load, whose master reset would otherwise wipe the input registers): input
/// registers FC-FF, the board's digital input port, jumpers, and the (clamped) voltages.
#[cfg_attr(kani, kani::proof)]
#[cfg_attr(kani, kani::unwind(6))]
pub(crate) fn c12_configuration_applied() {
    let config = MachineConfig {
        digital_input1: vany(),
        temp: vany(),
        jumper1: vany(),
        jumper2: vany(),
        analog_input1: vany(),
        analog_input2: vany(),
        universal_input_output1: vany(),
        universal_input_output2: vany(),
        universal_input_output3: vany(),
        input_fc: vany(),
        input_fd: vany(),
        input_fe: vany(),
        input_ff: vany(),
    };
    vcover!(config.input_ff == 0x5A && config.jumper2, "pre.some-config");
    let program = crate::compiler::ByteCode { lines: vec![], stacksize: crate::parser::Stacksize::_16, programsize: crate::parser::Programsize::Auto };
    let m = crate::machine::Machine::new_with_program(config.clone(), program);
    let clamp = |v: f32| -> f32 {
        if v != v || v < 0.0 {
            0.0
        } else if v > 5.0 {
            5.0
        } else {
            v
        }
    };
    let b = m.bus();
    vassert!(b.read(0xFC) == config.input_fc && b.read(0xFD) == config.input_fd && b.read(0xFE) == config.input_fe && b.read(0xFF) == config.input_ff,
        "C12.V.cfg.input-registers-as-configured");
    vassert!(*b.board().digital_input1() == config.digital_input1, "C12.V.cfg.digital-input-port-as-configured");
    vassert!(*b.board().temp() == clamp(config.temp) && b.board().analog_inputs()[0] == clamp(config.analog_input1)
        && b.board().analog_inputs()[1] == clamp(config.analog_input2), "C12.V.cfg.voltages-as-configured-clamped");
    let dasr = b.board().dasr().bits();
    vassert!((dasr & 0x40 != 0) == config.jumper1 && (dasr & 0x80 != 0) == config.jumper2, "C12.V.cfg.jumpers-as-configured");
    // the UIO pins are inputs after a load (directions reset), so the configured levels are visible
    vassert!((dasr & 1 != 0) == config.universal_input_output1 && (dasr & 2 != 0) == config.universal_input_output2
        && (dasr & 4 != 0) == config.universal_input_output3, "C12.V.cfg.uio-levels-as-configured");
    vassert!(m.state() == State::Running, "C12.V.cfg.machine-running");
    std::mem::forget(m);
}

#[cfg_attr(kani, kani::proof)]
pub(crate) fn c12_canary() {
    let exp = RunExpectations { state: None, output_fe: Some(vany()), output_ff: None };
    let machine = mk_machine(any_raw(), StepMode::Real);
    let config = RunnerConfig { max_cycles: 0, machine_config: MachineConfig::default(), program: "", interrupts: vec![], resets: vec![], _phantom: PhantomData };
    let result = RunResults { machine, emulated_cycles: 0, time_taken: Duration::from_secs(0), config: &config, _phantom: PhantomData };
    // wrong on purpose: claims verification never fails
    vassert!(exp.verify(&result).is_ok(), "CANARY");
    std::mem::forget(result);
    std::mem::forget(config);
}

crate::replay_table!(verif_replay_c12; c12_verify, c12_run_schedule, c12_configuration_applied, c12_canary,);
