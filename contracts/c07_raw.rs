// C07 — contracts of `RawMachine::cpu_reset` / `master_reset` from an ARBITRARY pre-state (every
// field symbolic, not only invariant-satisfying ones: "after any history" is over-approximated by
// "from any state") (injected as `machine::raw::verif_c07`).
use super::verif_st_raw::*;
use super::*;
use crate::machine::bus::verif_c07u::*;
use crate::verif_shim::*;
use crate::{vassert, vcover};

/// CPU side of both resets: registers, IR, micro-sequencer, pending writes / wait / key interrupt,
/// latched ALU output and bus byte at power-on values, machine Running; limits untouched.
pub(crate) fn cpu_side_reset_post(old: &RawMachine, new: &RawMachine) -> bool {
    let fresh = RawMachine::new();
    new.microprogram_ram == fresh.microprogram_ram
        && new.register == fresh.register
        && new.instruction_register == fresh.instruction_register
        && new.pending_register_write == fresh.pending_register_write
        && new.pending_flag_write == fresh.pending_flag_write
        && new.pending_edge_interrupt == fresh.pending_edge_interrupt
        && new.pending_wait_for_memory == fresh.pending_wait_for_memory
        && new.alu_output == fresh.alu_output
        && new.last_bus_read == fresh.last_bus_read
        && new.state == State::Running
        && new.stacksize == old.stacksize
        && new.programsize == old.programsize
}

#[cfg_attr(kani, kani::proof)]
pub(crate) fn c07_cpu_reset() {
    let mut m = any_raw();
    let old = m.clone();
    vcover!(old.state == State::ErrorStopped && old.pending_edge_interrupt.is_some(), "pre.dirty");
    m.cpu_reset();
    vassert!(cpu_side_reset_post(&old, &m), "C07.R.cpu.cpu-side-power-on");
    vassert!(bus_cpu_reset_post(&old.bus, &m.bus), "C07.R.cpu.bus-outputs-micr-ucr-reset-rest-untouched");
}

#[cfg_attr(kani, kani::proof)]
pub(crate) fn c07_master_reset() {
    let mut m = any_raw();
    let old = m.clone();
    vcover!(old.state == State::Stopped, "pre.dirty");
    m.master_reset();
    vassert!(cpu_side_reset_post(&old, &m), "C07.R.master.cpu-side-power-on");
    vassert!(bus_master_reset_post(&old.bus, &m.bus), "C07.R.master.bus-and-board");
}

crate::replay_table!(verif_replay_c07; c07_cpu_reset, c07_master_reset,);
