// C07 — contracts of `RawMachine::cpu_reset` / `master_reset` from an ARBITRARY pre-state (every
// field symbolic, not only invariant-satisfying ones: "after any history" is over-approximated by
// "from any state") (injected as `machine::raw::verif_c07`).
use super::verif_st_raw::*;
use super::*;
use crate::machine::bus::verif_c07u::*;
use crate::machine::bus::verif_st_bus::{differ_outside_cpu_projection, same_cpu_projection_as};
use crate::verif_shim::*;
use crate::{vassert, vcover};

/// CPU side of both resets: registers, IR, micro-sequencer, pending writes / wait / key interrupt,
/// latched ALU output and bus byte at power-on values, machine Running; limits untouched.
pub(crate) fn cpu_side_reset_post(old: &RawMachine, new: &RawMachine) -> bool {
    let fresh = RawMachine::new();
    new.microprogram_ram == fresh.microprogram_ram
        && new.register == fresh.register
        && new.instruction_register == fresh.instruction_register
        && new.pending_register_write == fresh.pending_register_write
        && new.pending_flag_write == fresh.pending_flag_write
        && new.pending_edge_interrupt == fresh.pending_edge_interrupt
        && new.pending_wait_for_memory == fresh.pending_wait_for_memory
        && new.alu_output == fresh.alu_output
        && new.last_bus_read == fresh.last_bus_read
        && new.state == State::Running
        && new.stacksize == old.stacksize
        && new.programsize == old.programsize
}

#[cfg_attr(kani, kani::proof)]
pub(crate) fn c07_cpu_reset() {
    let mut m = any_raw();
    let old = m.clone();
    vcover!(old.state == State::ErrorStopped && old.pending_edge_interrupt.is_some(), "pre.dirty");
    m.cpu_reset();
    vassert!(cpu_side_reset_post(&old, &m), "C07.R.cpu.cpu-side-power-on");
    vassert!(bus_cpu_reset_post(&old.bus, &m.bus), "C07.R.cpu.bus-outputs-micr-ucr-reset-rest-untouched");
}

#[cfg_attr(kani, kani::proof)]
pub(crate) fn c07_master_reset() {
    let mut m = any_raw();
    let old = m.clone();
    vcover!(old.state == State::Stopped, "pre.dirty");
    m.master_reset();
    vassert!(cpu_side_reset_post(&old, &m), "C07.R.master.cpu-side-power-on");
    vassert!(bus_master_reset_post(&old.bus, &m.bus), "C07.R.master.bus-and-board");
}

/// R.indep (2-safety, one edge, two machines): machines that agree on everything but the extension
/// board (and the status/UART bytes the statement does not mention) still agree after a clock edge
/// whose executed word does not address 0xF0-0xFB.  With R.load (the CPU projection after a load does
/// not depend on the pre-state) this is the induction step of "a program using only RAM and the
/// FC-FF registers runs cycle-for-cycle as on a newly created machine".
#[cfg_attr(kani, kani::proof)]
pub(crate) fn c07_x_edge_independent_of_board() {
    let mut m1 = any_raw();
    vassume(wf_raw(&m1));
    let mut m2 = m1.clone();
    // the second machine differs arbitrarily in the board and in MISR / UART bytes / timer
    m2.bus = differ_outside_cpu_projection(&m1.bus);
    vassume(wf_raw(&m2));
    vcover!(m1.state == State::Running && m1.pending_wait_for_memory.is_none(), "pre.running");
    m1.trigger_clock_edge();
    m2.trigger_clock_edge();
    // the word just executed and the address it drove on the bus (same in both: control state agrees)
    let w = cur_word(&m1);
    let a_sel = if w.contains(Word::MRGAA3) { ir(&m1) & 3 } else {
        ((w.contains(Word::MRGAA2) as u8) << 2) | ((w.contains(Word::MRGAA1) as u8) << 1) | (w.contains(Word::MRGAA0) as u8) };
    let addr = reg(&m1, a_sel);
    let touches_board_or_status = (w.contains(Word::BUSEN) || w.contains(Word::BUSWR)) && addr >= 0xF0 && addr <= 0xFB;
    if !touches_board_or_status {
        let mut m2p = m2.clone();
        m2p.bus = same_cpu_projection_as(&m2.bus, &m1.bus);
        vassert!(raw_same(&m1, &m2p), "C07.R.indep.edge-is-a-function-of-the-cpu-projection");
    }
}

#[cfg_attr(kani, kani::proof)]
pub(crate) fn c07_canary() {
    let mut m = any_raw();
    let old = m.clone();
    m.cpu_reset();
    // wrong on purpose: claims a CPU reset clears the input registers as a master reset does
    vassert!(bus_master_reset_post(&old.bus, &m.bus), "CANARY");
}

crate::replay_table!(verif_replay_c07; c07_cpu_reset, c07_master_reset, c07_x_edge_independent_of_board, c07_canary,);
