// C14 — the bus side: writes to 0xF0-0xF3 perform exactly the board operation the address/byte
// selects (the board operations carry their own contracts in `machine::board::verif_c14`), and reads
// of 0xF0-0xF3 return the input port, DASR, fan period and DAISR (injected as `machine::bus::verif_c14u`).
use super::verif_st_bus::*;
use super::*;
use crate::machine::board::verif_c14::*;
use crate::machine::board::verif_st_board::*;
use crate::verif_shim::*;
use crate::{vassert, vcover};

#[cfg_attr(kani, kani::proof)]
pub(crate) fn c14_port_write_decoding() {
    let mut bus = any_bus();
    vassume(inv_board(&bus.board));
    let old = bus.clone();
    let addr: u8 = vany();
    let byte: u8 = vany();
    vassume(addr >= 0xF0 && addr <= 0xF3);
    vcover!(addr == 0xF2 && byte >> 6 == 3, "pre.icr");
    vcover!(addr == 0xF2 && byte >> 6 == 1, "pre.nothing");
    bus.write(addr, byte);
    // caller checked against the callee contracts: the expected board is the callee applied to the
    // old board (each callee's own postcondition is discharged in machine::board::verif_c14)
    let mut exp = old.board.clone();
    match (addr, byte >> 6) {
        (0xF0, _) => exp.set_digital_output1(byte),
        (0xF1, _) => exp.set_digital_output2(byte),
        (0xF2, 0b00) => exp.set_uor(byte),
        (0xF2, 0b01) => {}
        (0xF2, 0b10) => exp.set_udr(byte),
        (0xF2, _) => exp.set_icr(byte),
        _ => exp.delete_int_ff(),
    }
    vassert!(board_same(&bus.board, &exp), "C14.U.port-write-selects-board-operation");
    vassert!(inv_board(&bus.board), "C14.U.inv.port-write");
    if addr == 0xF0 {
        let p = bus.read(0xF2) as i32;
        let want = 255 - byte as i32;
        vassert!(p - want <= 1 && want - p <= 1, "C14.U.fan.period-register-follows-law");
    }
}

#[cfg_attr(kani, kani::proof)]
pub(crate) fn c14_port_reads() {
    let bus = any_bus();
    vcover!(true, "pre");
    vassert!(bus.read(0xF0) == *bus.board.digital_input1(), "C14.U.read-f0-input-port");
    vassert!(bus.read(0xF1) == bus.board.dasr().bits(), "C14.U.read-f1-status");
    vassert!(bus.read(0xF3) == bus.board.daisr().bits(), "C14.U.read-f3-interrupt-status");
    vassert!(bus.read(0xF2) == bus.board.get_fan_period(), "C14.U.read-f2-fan-period");
}

crate::replay_table!(verif_replay_c14u; c14_port_write_decoding, c14_port_reads,);
