// C07 — contracts of `Bus::cpu_reset` / `Bus::master_reset` (injected as `machine::bus::verif_c07u`).
use super::verif_st_bus::*;
use super::*;
use crate::machine::board::verif_c07b::board_master_reset_post;
use crate::machine::board::verif_st_board::*;
use crate::verif_shim::*;
use crate::{vassert, vcover};

/// forall i < 240. a[i] == b[i], stated with a symbolic index (no 240-iteration memcmp loop).
pub(crate) fn ram_eq(a: &[u8; 0xF0], b: &[u8; 0xF0]) -> bool {
    let i: usize = vany();
    vassume(i < 0xF0);
    a[i] == b[i]
}

/// CPU-reset postcondition on the bus: output registers, MICR, UCR at power-on values; RAM, input
/// registers, timer settings and the whole board bit-identical.  (MISR and the UART data/status
/// bytes are not mentioned by the statement and are left unconstrained.)
pub(crate) fn bus_cpu_reset_post(old: &Bus, new: &Bus) -> bool {
    let fresh = Bus::new();
    new.output_reg == fresh.output_reg
        && new.micr == fresh.micr
        && new.ucr == fresh.ucr
        && ram_eq(&new.ram.0, &old.ram.0)
        && new.input_reg == old.input_reg
        && new.int_timer == old.int_timer
        && board_same(&new.board, &old.board)
}

/// Master-reset postcondition on the bus: CPU-reset values, plus input registers and timer at
/// power-on values, plus the board's master reset; RAM bit-identical.
pub(crate) fn bus_master_reset_post(old: &Bus, new: &Bus) -> bool {
    let fresh = Bus::new();
    new.output_reg == fresh.output_reg
        && new.micr == fresh.micr
        && new.ucr == fresh.ucr
        && ram_eq(&new.ram.0, &old.ram.0)
        && new.input_reg == fresh.input_reg
        && new.int_timer == fresh.int_timer
        && board_master_reset_post(&old.board, &new.board)
}

#[cfg_attr(kani, kani::proof)]
pub(crate) fn c07_bus_cpu_reset() {
    let mut b = any_bus();
    let old = b.clone();
    vcover!(old.output_reg[0] != 0, "pre.dirty");
    b.cpu_reset();
    vassert!(bus_cpu_reset_post(&old, &b), "C07.R.bus.cpu-reset");
}

#[cfg_attr(kani, kani::proof)]
pub(crate) fn c07_bus_master_reset() {
    let mut b = any_bus();
    let old = b.clone();
    vcover!(old.input_reg[0] != 0 && *old.board.digital_output1() != 0, "pre.dirty");
    b.master_reset();
    vassert!(new_parts_ok(&old, &b), "C07.R.bus.master-reset.cpu-side");
    vassert!(board_master_reset_post(&old.board, &b.board), "C07.R.bus.master-reset.board-outputs-cleared-inputs-kept");
    vassert!(bus_master_reset_post(&old, &b), "C07.R.bus.master-reset");
}

fn new_parts_ok(old: &Bus, new: &Bus) -> bool {
    let fresh = Bus::new();
    new.output_reg == fresh.output_reg
        && new.micr == fresh.micr
        && new.ucr == fresh.ucr
        && ram_eq(&new.ram.0, &old.ram.0)
        && new.input_reg == fresh.input_reg
        && new.int_timer == fresh.int_timer
}

crate::replay_table!(verif_replay_c07u; c07_bus_cpu_reset, c07_bus_master_reset,);
