// stub certificate (replaced per run by tools/gen_c09_cert.py from the real next-address function)
pub(crate) const CERT_MASK: [[u32; 8]; 512] = [[0; 8]; 512];
pub(crate) const STUCK_MASK: [[u32; 8]; 512] = [[0; 8]; 512];
pub(crate) const CERT_RANK: [u8; 512] = [0; 512];
pub(crate) const CERT_STATES: usize = 0;
