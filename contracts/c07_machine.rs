// C07 — `Machine::cpu_reset` / `master_reset` / `load` (injected as `machine::verif_c07m`).
use super::bus::verif_c07u::*;
use super::bus::verif_st_bus::*;
use super::raw::verif_c07::*;
use super::raw::verif_st_raw::*;
use super::verif_st_machine::*;
use super::*;
use crate::parser::Line;
use crate::verif_shim::*;
use crate::{vassert, vcover};

#[cfg_attr(kani, kani::proof)]
pub(crate) fn c07_machine_resets() {
    let mut m = any_machine();
    let old = m.clone();
    let master: bool = vany();
    vcover!(master, "pre.master");
    if master {
        m.master_reset();
        vassert!(bus_master_reset_post(raw_of(&old).bus(), m.bus()), "C07.R.machine.master.bus-and-board");
    } else {
        m.cpu_reset();
        vassert!(bus_cpu_reset_post(raw_of(&old).bus(), m.bus()), "C07.R.machine.cpu.bus");
    }
    vassert!(cpu_side_reset_post(raw_of(&old), raw_of(&m)), "C07.R.machine.cpu-side-power-on");
    vassert!(m.step_mode() == old.step_mode(), "C07.R.machine.step-mode-untouched");
}

/// R.load — images of fixed small shapes over three lines (line lengths concrete so that the loops of
/// `load` have concrete trip counts whatever their form), bytes, limits and the whole pre-state symbolic.
/// BOUNDED in the image length (the shapes below); the fill loop is uniform in the address.
fn load_shape(n1: usize, n2: usize) {
    let mut m = any_machine();
    let old = m.clone();
    let bytes: [u8; 6] = vany();
    vcover!(true, "pre.shape");
    let l1: Vec<u8> = bytes[..n1].to_vec();
    let l2: Vec<u8> = bytes[3..3 + n2].to_vec();
    let ss = any_stacksize();
    let ps = any_programsize();
    let program = crate::compiler::ByteCode {
        lines: vec![(Line::Empty(None), l1), (Line::Empty(None), vec![]), (Line::Empty(None), l2)],
        stacksize: ss,
        programsize: ps,
    };
    m.load(program);
    // master reset ...
    vassert!(cpu_side_reset_post_but_limits(raw_of(&old), raw_of(&m)), "C07.R.load.cpu-side-power-on");
    let mut exp_bus_old = raw_of(&old).bus().clone();
    *ram_mut_of(&mut exp_bus_old) = *m.bus().memory();
    vassert!(bus_master_reset_post(&exp_bus_old, m.bus()), "C07.R.load.master-reset-of-bus-and-board");
    // ... RAM = image followed by zeros ...
    let i: usize = vany();
    vassume(i < 0xF0);
    let exp = if i < n1 {
        bytes[i]
    } else if i < n1 + n2 {
        bytes[3 + (i - n1)]
    } else {
        0
    };
    vassert!(m.bus().memory()[i] == exp, "C07.R.load.ram-is-image-then-zeros");
    // ... and the program's limits are applied
    let exp_ss = if ss == Stacksize::NotSet { old.stacksize() } else { ss };
    let exp_ps = match ps {
        Programsize::Size(_) => ps,
        Programsize::Auto => Programsize::Size((n1 + n2) as u8),
        Programsize::NotSet => old.programsize(),
    };
    vassert!(m.stacksize() == exp_ss, "C07.R.load.stacksize-applied");
    vassert!(m.programsize() == exp_ps, "C07.R.load.programsize-applied");
    vassert!(m.step_mode() == old.step_mode(), "C07.R.load.step-mode-untouched");
}
macro_rules! load_harness {
    ($name:ident, $n1:expr, $n2:expr) => {
        #[cfg_attr(kani, kani::proof)]
        #[cfg_attr(kani, kani::unwind(10))]
        pub(crate) fn $name() {
            load_shape($n1, $n2)
        }
    };
}
load_harness!(c07_load_empty, 0, 0);
load_harness!(c07_load_3_2, 3, 2);
load_harness!(c07_load_1_3, 1, 3);

/// Thorough tier: the "followed by zeros" clause again with an unwind bound that covers loops over the
/// whole RAM (a rewritten fill that iterates over all 240 cells is then unwound completely instead of
/// leaving the check undecided).  Machine concrete except three stale RAM cells; image shapes concrete.
fn load_clears_stale(n: usize) {
    let mut m = Machine::new(MachineConfig::default());
    let stale: [u8; 3] = vany();
    {
        let mem = m.raw_mut().bus_mut().memory_mut();
        mem[0] = stale[0];
        mem[1] = stale[1];
        mem[0xEF] = stale[2];
    }
    let bytes: [u8; 2] = vany();
    vcover!(stale[0] != 0, "pre.stale-first-cell");
    let program = crate::compiler::ByteCode {
        lines: vec![(Line::Empty(None), bytes[..n].to_vec())],
        stacksize: Stacksize::_16,
        programsize: Programsize::Auto,
    };
    m.load(program);
    let i: usize = vany();
    vassume(i < 0xF0);
    let exp = if i < n { bytes[i] } else { 0 };
    vassert!(m.bus().memory()[i] == exp, "C07.R.load.ram-is-image-then-zeros");
}
#[cfg_attr(kani, kani::proof)]
#[cfg_attr(kani, kani::unwind(245))]
pub(crate) fn c07_x_load_empty_clears_stale_ram() {
    load_clears_stale(0)
}
#[cfg_attr(kani, kani::proof)]
#[cfg_attr(kani, kani::unwind(245))]
pub(crate) fn c07_x_load_one_byte_clears_stale_ram() {
    load_clears_stale(1)
}

fn cpu_side_reset_post_but_limits(old: &RawMachine, new: &RawMachine) -> bool {
    let mut o = old.clone();
    o.set_stacksize(new.stacksize());
    o.set_programsize(new.programsize());
    cpu_side_reset_post(&o, new)
}

crate::replay_table!(verif_replay_c07m; c07_machine_resets, c07_load_empty, c07_load_3_2, c07_load_1_3, c07_x_load_empty_clears_stale_ram, c07_x_load_one_byte_clears_stale_ram,);
