// C01 — loop contracts for the two micro-programmed loops, MUL and DIV
// (injected as `machine::raw::verif_c01l`).
//
// MUL Rd,Rs (shift-and-add):  entry  {B, opcode 0xB_}            -> {H_mul, Inv_mul(a0,b0,0)}
//                             pass   {H_mul, Inv_mul(a0,b0,j)}   -> {H_mul, Inv_mul(a0,b0,j+1)}  or  {X_mul(a0,b0)}
//                             exit   {X}                         -> {B', Rd = res, C/Z/N}
// DIV Rd,Rs (repeated subtraction), likewise with Inv_div(a0,b0,q); the divide-by-zero path is a
// loop-free triple of its own.  Ghost variables a0, b0 (initial operands) and j / q are symbolic.
// The while-rule (entry ; pass* ; exit ==> {B} MUL {B', view' = isa_mul(view)}) and the variants
// (j < 8 strictly increasing; a0 - q*b0 strictly decreasing) give total correctness for all 65 536
// operand pairs; each pass proves its own frame (no register other than Rd/R4/R6/R7, nothing on the bus).
use super::verif_c01::*;
use super::verif_isa::*;
use super::verif_st_raw::*;
use super::*;
use crate::machine::alu::verif_st_alu::*;
use crate::machine::bus::verif_st_bus::*;
use crate::verif_shim::*;
use crate::{vassert, vcover};
use enum_primitive::FromPrimitive;

pub(crate) const MUL_HEAD: usize = 0x165;
pub(crate) const MUL_EXIT: usize = 0x169;
pub(crate) const DIV_HEAD: usize = 0x187;
pub(crate) const DIV_EXIT: usize = 0x189;

fn regnum(d: u8) -> RegisterNumber {
    RegisterNumber::from_u8(d).unwrap()
}

/// A symbolic machine in the middle of routine `nibble` at word `at`, opcode register field symbolic.
fn loop_machine(at: usize, nibble: u8) -> RawMachine {
    let mut m = any_raw();
    m.microprogram_ram.set_address(at);
    let low: u8 = vany();
    m.instruction_register.set_raw((nibble << 4) | (low & 0x0F));
    m.pending_edge_interrupt = None;
    m.pending_level_interrupt = None;
    m.pending_wait_for_memory = None;
    m.state = State::Running;
    vassume(wf_raw(&m));
    m
}

/// Frame of one loop pass / exit: registers other than Rd, R4, R6, R7 and the whole bus unchanged,
/// IE and the upper flag bits unchanged.
fn loop_frame(old: &RawMachine, new: &RawMachine, d: u8) -> bool {
    let i: usize = vany();
    vassume(i < 0xF0);
    let mut ok = true;
    let mut r = 0u8;
    while r < 6 {
        if r != d && r != 4 {
            ok = ok && reg(new, r) == reg(old, r);
        }
        r += 1;
    }
    ok && reg(new, 4) & 0xF8 == reg(old, 4) & 0xF8
        && bus_same_but_ram(&new.bus, &old.bus)
        && ram_of(&new.bus)[i] == ram_of(&old.bus)[i]
        && outside_view_unchanged(old, new)
}

// ------------------------------------------------------------------------------------------ MUL
fn low_bits(a0: u8, j: u8) -> u32 {
    (a0 as u32) & ((1u32 << (j as u32 & 15)) - 1)
}
/// a0 >> n for n up to 8, in wide arithmetic (u8 >> 8 is not defined in Rust)
fn shr(a0: u8, n: u8) -> u8 {
    ((a0 as u32) >> (n as u32 & 15)) as u8
}

/// Invariant at the MUL loop head (word 0x165 = "LSR Rd / JC" has just executed for bit j).
fn inv_mul(m: &RawMachine, a0: u8, b0: u8, j: u8) -> bool {
    let d = ir(m) & 3;
    let p = low_bits(a0, j) * b0 as u32; // exact partial product of the bits consumed so far
    let s = (b0 as u32) << (j as u32 & 15); // exact shifted multiplicand
    let c = reg(m, 4) & 1 != 0;
    j < 8
        && maddr(m) == MUL_HEAD
        && ir(m) >> 4 == 0xB
        && m.state == State::Running
        && m.pending_wait_for_memory.is_none()
        && m.pending_flag_write.is_none()
        && m.pending_register_write == Some(regnum(d))
        && m.alu_output.output() == shr(a0, j + 1)
        && m.alu_output.carry_out() == (shr(a0, j) & 1 != 0)
        && reg(m, d) == shr(a0, j)
        && (j == 0 || shr(a0, j) != 0)
        && reg(m, 6) == (s & 0xFF) as u8
        && reg(m, 7) == (p & 0xFF) as u8
        // carry flag: clear => everything so far was exact; set => the product exceeds 255
        && (c || (p <= 0xFF && s <= 0xFF))
        && (!c || (a0 as u32) * (b0 as u32) > 0xFF)
}

/// State after the MUL exit word 0x169 ("MOV Rd,R7", carry held): result and flags are latched.
fn x_mul(m: &RawMachine, a0: u8, b0: u8) -> bool {
    let d = ir(m) & 3;
    let p = a0 as u32 * b0 as u32;
    let res = (p & 0xFF) as u8;
    maddr(m) == MUL_EXIT
        && m.state == State::Running
        && m.pending_wait_for_memory.is_none()
        && m.pending_flag_write.is_some()
        && m.pending_register_write == Some(regnum(d))
        && m.alu_output.output() == res
        && m.alu_output.carry_out() == (p > 0xFF)
        && m.alu_output.zero_out() == (res == 0)
        && m.alu_output.negative_out() == (res >= 0x80)
}

/// entry: B with opcode 0xB_ reaches the loop head with Inv(a0 = Rd, b0 = Rs, j = 0).
#[cfg_attr(kani, kani::proof)]
#[cfg_attr(kani, kani::unwind(12))]
pub(crate) fn c01_mul_entry() {
    let mut m = boundary_machine(FETCH_WORD, 0xB0, 0x0F);
    vassume(at_boundary(&m));
    let k = m.last_bus_read;
    let v0 = view_of(&m);
    let (a0, b0) = (v0.r[(k & 3) as usize], v0.r[((k >> 2) & 3) as usize]);
    let old = m.clone();
    // first word: one of the four identical entry words 0x160 + s; treat it as 0x160 (WLOG, asserted)
    m.pending_wait_for_memory = None; // wait edge by contract
    m.trigger_clock_edge();
    vassume(m.state == State::Running);
    vassert!(maddr(&m) == 0x160 + ((k >> 2) & 3) as usize, "C01.PATH.micro-address-as-certified");
    vassert!(word_at(maddr(&m)).bits() == word_at(0x160).bits(), "C01.MUL.entry-words-identical");
    m.microprogram_ram.set_address(0x160);
    let _ = run_path(&mut m, &paths::c01_mul_entry[1..]);
    vassume(m.state == State::Running);
    vcover!(true, "pre.reachable");
    vassert!(inv_mul(&m, a0, b0, 0), "C01.MUL.entry-establishes-invariant");
    // frame relative to the view at B (PC already committed)
    let d = k & 3;
    let mut r = 0u8;
    let mut ok = true;
    while r < 6 {
        if r != d && r != 4 {
            ok = ok && reg(&m, r) == v0.r[r as usize];
        }
        r += 1;
    }
    let i: usize = vany();
    vassume(i < 0xF0);
    vassert!(ok && reg(&m, 4) & 0xF8 == v0.r[4] & 0xF8 && bus_same_but_ram(&m.bus, &v0.bus) && ram_of(&m.bus)[i] == ram_of(&v0.bus)[i]
        && outside_view_unchanged(&old, &m), "C01.MUL.entry-frame");
}

macro_rules! mul_pass {
    ($name:ident, $bit:expr, $last:expr) => {
        #[cfg_attr(kani, kani::proof)]
        #[cfg_attr(kani, kani::unwind(12))]
        pub(crate) fn $name() {
            let mut m = loop_machine(MUL_HEAD, 0xB);
            let (a0, b0, j): (u8, u8, u8) = (vany(), vany(), vany());
            vassume(inv_mul(&m, a0, b0, j));
            // case of this harness: current multiplier bit, and whether higher bits remain
            vassume((shr(a0, j) & 1 != 0) == $bit);
            vassume((shr(a0, j + 1) == 0) == $last);
            let old = m.clone();
            let d = ir(&m) & 3;
            let _ = run_path(&mut m, paths::$name);
            vassume(m.state == State::Running);
            vcover!(true, "pre.reachable");
            if $last {
                vassert!(x_mul(&m, a0, b0), "C01.MUL.pass-exits-with-product-and-carry");
            } else {
                vassert!(j + 1 < 8, "C01.MUL.variant-bounded-by-operand-width");
                vassert!(inv_mul(&m, a0, b0, j + 1), "C01.MUL.pass-preserves-invariant");
            }
            vassert!(loop_frame(&old, &m, d), "C01.MUL.pass-frame");
        }
    };
}
mul_pass!(c01_mul_pass_1_more, true, false);
mul_pass!(c01_mul_pass_0_more, false, false);
mul_pass!(c01_mul_pass_1_last, true, true);
mul_pass!(c01_mul_pass_0_last, false, true);

/// exit: from the latched result to the next boundary.
#[cfg_attr(kani, kani::proof)]
#[cfg_attr(kani, kani::unwind(12))]
pub(crate) fn c01_mul_exit() {
    let mut m = loop_machine(MUL_EXIT, 0xB);
    let (a0, b0): (u8, u8) = (vany(), vany());
    vassume(x_mul(&m, a0, b0));
    vassume(m.pending_edge_interrupt.is_none());
    let old = m.clone();
    let d = (ir(&m) & 3) as usize;
    // view before the commit, with the ISA result applied
    let mut exp = View { r: [reg(&m, 0), reg(&m, 1), reg(&m, 2), reg(&m, 3), reg(&m, 4), reg(&m, 5)], bus: m.bus.clone() };
    let p = a0 as u32 * b0 as u32;
    exp.set_czn(p > 0xFF, (p & 0xFF) as u8);
    exp.r[d] = (p & 0xFF) as u8;
    exp.r[PC] = exp.r[PC].wrapping_add(1);
    let _ = run_path(&mut m, paths::c01_mul_exit);
    vassume(m.state == State::Running);
    vcover!(true, "pre.reachable");
    vassert!(at_boundary(&m), "C01.MUL.boundary");
    vassert!(view_matches(&m, &exp), "C01.MUL.view-product-and-carry-iff-over-255");
    vassert!(outside_view_unchanged(&old, &m), "C01.MUL.frame");
}

// ------------------------------------------------------------------------------------------ DIV
/// Invariant at the DIV loop head (word 0x187 = "ADD Rd,R6,1 / JC" has just executed; q passes done).
fn inv_div(m: &RawMachine, a0: u8, b0: u8, q: u8) -> bool {
    let d = ir(m) & 3;
    let rem = a0 as i32 - (q as i32) * (b0 as i32); // >= 0 by the conjunct below
    maddr(m) == DIV_HEAD
        && ir(m) >> 4 == 0xC
        && b0 != 0
        && (q as u32) * (b0 as u32) <= a0 as u32
        && m.state == State::Running
        && m.pending_wait_for_memory.is_none()
        && m.pending_flag_write.is_none()
        && m.pending_register_write == Some(regnum(d))
        && reg(m, d) == rem as u8
        && reg(m, 6) == !b0
        && reg(m, 7) == q
        && m.alu_output.output() == (rem as u8).wrapping_sub(b0)
        && m.alu_output.carry_out() == (rem < b0 as i32)
        && reg(m, 4) & 7 == (((q == 0) as u8) << 1) | (((q >= 0x80) as u8) << 2)
}

/// State after the DIV exit word 0x189 ("MOV Rd,R7"): the quotient is latched, flags already final.
fn x_div(m: &RawMachine, res: u8, carry: bool) -> bool {
    let d = ir(m) & 3;
    maddr(m) == DIV_EXIT
        && m.state == State::Running
        && m.pending_wait_for_memory.is_none()
        && m.pending_flag_write.is_none()
        && m.pending_register_write == Some(regnum(d))
        && m.alu_output.output() == res
        && reg(m, 4) & 7 == (carry as u8) | (((res == 0) as u8) << 1) | (((res >= 0x80) as u8) << 2)
}

fn entry_common(k: u8, m: &mut RawMachine) {
    m.pending_wait_for_memory = None; // wait edge by contract
    m.trigger_clock_edge();
    vassume(m.state == State::Running);
    vassert!(maddr(m) == 0x180 + ((k >> 2) & 3) as usize, "C01.PATH.micro-address-as-certified");
    vassert!(word_at(maddr(m)).bits() == word_at(0x180).bits(), "C01.DIV.entry-words-identical");
    m.microprogram_ram.set_address(0x180);
}

#[cfg_attr(kani, kani::proof)]
#[cfg_attr(kani, kani::unwind(12))]
pub(crate) fn c01_div_entry() {
    let mut m = boundary_machine(FETCH_WORD, 0xC0, 0x0F);
    vassume(at_boundary(&m));
    let k = m.last_bus_read;
    let v0 = view_of(&m);
    let (a0, b0) = (v0.r[(k & 3) as usize], v0.r[((k >> 2) & 3) as usize]);
    vassume(b0 != 0);
    let old = m.clone();
    entry_common(k, &mut m);
    let _ = run_path(&mut m, &paths::c01_div_entry[1..]);
    vassume(m.state == State::Running);
    vcover!(true, "pre.reachable");
    vassert!(inv_div(&m, a0, b0, 0), "C01.DIV.entry-establishes-invariant");
    let d = k & 3;
    let mut r = 0u8;
    let mut ok = true;
    while r < 6 {
        if r != d && r != 4 {
            ok = ok && reg(&m, r) == v0.r[r as usize];
        }
        r += 1;
    }
    let i: usize = vany();
    vassume(i < 0xF0);
    vassert!(ok && reg(&m, 4) & 0xF8 == v0.r[4] & 0xF8 && bus_same_but_ram(&m.bus, &v0.bus) && ram_of(&m.bus)[i] == ram_of(&v0.bus)[i]
        && outside_view_unchanged(&old, &m), "C01.DIV.entry-frame");
}

/// Division by zero: loop-free, 0xFF with carry set.
#[cfg_attr(kani, kani::proof)]
#[cfg_attr(kani, kani::unwind(12))]
pub(crate) fn c01_div_by_zero() {
    let mut m = boundary_machine(FETCH_WORD, 0xC0, 0x0F);
    vassume(at_boundary(&m));
    let k = m.last_bus_read;
    let old = m.clone();
    let mut exp = view_of(&m);
    vassume(exp.r[((k >> 2) & 3) as usize] == 0);
    entry_common(k, &mut m);
    let _ = run_path(&mut m, &paths::c01_div_by_zero[1..]);
    vassume(m.state == State::Running);
    vcover!(true, "pre.reachable");
    isa_div(&mut exp, k);
    exp.r[PC] = exp.r[PC].wrapping_add(1);
    vassert!(at_boundary(&m), "C01.DIV0.boundary");
    vassert!(view_matches(&m, &exp), "C01.DIV0.view-0xFF-and-carry");
    vassert!(outside_view_unchanged(&old, &m), "C01.DIV0.frame");
}

macro_rules! div_pass {
    ($name:ident, $last:expr) => {
        #[cfg_attr(kani, kani::proof)]
        #[cfg_attr(kani, kani::unwind(12))]
        pub(crate) fn $name() {
            let mut m = loop_machine(DIV_HEAD, 0xC);
            let (a0, b0, q): (u8, u8, u8) = (vany(), vany(), vany());
            vassume(inv_div(&m, a0, b0, q));
            let rem = a0 as i32 - q as i32 * b0 as i32;
            vassume((rem < b0 as i32) == $last);
            let old = m.clone();
            let d = ir(&m) & 3;
            let _ = run_path(&mut m, paths::$name);
            vassume(m.state == State::Running);
            vcover!(true, "pre.reachable");
            if $last {
                vassert!(q == a0 / b0, "C01.DIV.exit-quotient-is-floor");
                vassert!(x_div(&m, q, false), "C01.DIV.pass-exits-with-quotient");
            } else {
                vassert!(q < 255, "C01.DIV.variant-bounded");
                vassert!(inv_div(&m, a0, b0, q + 1), "C01.DIV.pass-preserves-invariant");
                vassert!((a0 as i32) - (q as i32 + 1) * (b0 as i32) < rem && (a0 as i32) - (q as i32 + 1) * (b0 as i32) >= 0, "C01.DIV.variant-decreases");
            }
            vassert!(loop_frame(&old, &m, d), "C01.DIV.pass-frame");
        }
    };
}
div_pass!(c01_div_pass_more, false);
div_pass!(c01_div_pass_last, true);

#[cfg_attr(kani, kani::proof)]
#[cfg_attr(kani, kani::unwind(12))]
pub(crate) fn c01_div_exit() {
    let mut m = loop_machine(DIV_EXIT, 0xC);
    let res: u8 = vany();
    vassume(x_div(&m, res, false));
    let old = m.clone();
    let d = (ir(&m) & 3) as usize;
    let mut exp = View { r: [reg(&m, 0), reg(&m, 1), reg(&m, 2), reg(&m, 3), reg(&m, 4), reg(&m, 5)], bus: m.bus.clone() };
    exp.r[d] = res;
    exp.r[PC] = exp.r[PC].wrapping_add(1);
    let _ = run_path(&mut m, paths::c01_div_exit);
    vassume(m.state == State::Running);
    vcover!(true, "pre.reachable");
    vassert!(at_boundary(&m), "C01.DIV.boundary");
    vassert!(view_matches(&m, &exp), "C01.DIV.view-quotient");
    vassert!(outside_view_unchanged(&old, &m), "C01.DIV.frame");
}

#[cfg_attr(kani, kani::proof)]
#[cfg_attr(kani, kani::unwind(12))]
pub(crate) fn c01_loops_canary() {
    let mut m = loop_machine(MUL_HEAD, 0xB);
    let (a0, b0, j): (u8, u8, u8) = (vany(), vany(), vany());
    vassume(inv_mul(&m, a0, b0, j));
    vassume(shr(a0, j) & 1 != 0);
    vassume(shr(a0, j + 1) != 0);
    let _ = run_path(&mut m, paths::c01_mul_pass_1_more);
    vassume(m.state == State::Running);
    // wrong on purpose: claims the carry flag can never be set inside the loop
    vassert!(reg(&m, 4) & 1 == 0, "CANARY");
}

crate::replay_table!(verif_replay_c01l;
    c01_mul_entry, c01_mul_pass_1_more, c01_mul_pass_0_more, c01_mul_pass_1_last, c01_mul_pass_0_last, c01_mul_exit,
    c01_div_entry, c01_div_by_zero, c01_div_pass_more, c01_div_pass_last, c01_div_exit, c01_loops_canary,
);
