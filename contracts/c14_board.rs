// C14 — contracts of the MR2DA2 board operations (injected as `machine::board::verif_c14`).
//
// Board invariant I.board (what the status registers must reflect after any sequence of port writes
// and external input changes starting from `Board::new()`):
//   * stored voltages within 0..5 V (never NaN);
//   * DAC output voltage = written byte / 100;
//   * COMP_DAC1 <=> analog input 1 > DAC1 voltage; COMP_DAC2 <=> max(analog input 2, temperature) > DAC2 voltage.
// Every operation gets: requires I.board(old); ensures exact post-state (whole-board equality with
// "old with the documented fields replaced"), which includes the exact DAISR (edge interrupt raised
// iff the selected source makes its configured transition in this operation) and I.board(new).
use super::verif_st_board::*;
use super::*;
use crate::verif_shim::*;
use crate::{vassert, vcover};

pub(crate) fn dac_volt(byte: u8) -> f32 {
    byte as f32 / 100.0
}

pub(crate) fn clamp_ref(v: f32) -> f32 {
    if v != v {
        0.0 // not a number -> 0 V
    } else if v < 0.0 {
        0.0
    } else if v > 5.0 {
        5.0
    } else {
        v
    }
}

pub(crate) fn fmax(a: f32, b: f32) -> f32 {
    if a > b {
        a
    } else {
        b
    }
}

pub(crate) fn cmp1_ref(b: &Board) -> bool {
    b.analog_inputs[0] > b.analog_outputs[0]
}
pub(crate) fn cmp2_ref(b: &Board) -> bool {
    fmax(b.analog_inputs[1], b.temp) > b.analog_outputs[1]
}

pub(crate) fn inv_board(b: &Board) -> bool {
    wf_board(b)
        && b.analog_outputs[0].to_bits() == dac_volt(b.digital_output1).to_bits()
        && b.analog_outputs[1].to_bits() == dac_volt(b.digital_output2).to_bits()
        && b.dasr.contains(DASR::COMP_DAC1) == cmp1_ref(b)
        && b.dasr.contains(DASR::COMP_DAC2) == cmp2_ref(b)
}

/// Selected interrupt source = DAICR bits 2..0 (documented: 1..3 UIO1..3, 4/5 comparator 1/2, 6 jumper 1).
pub(crate) fn source_sel(b: &Board) -> u8 {
    b.daicr.bits() & 0b111
}
pub(crate) fn falling(b: &Board) -> bool {
    b.daicr.bits() & 0b1000 != 0
}

/// The selected source `sel` makes its configured transition when the signal goes old -> new.
pub(crate) fn raised(b: &Board, sel: u8, old: bool, new: bool) -> bool {
    source_sel(b) == sel && ((old && !new && falling(b)) || (!old && new && !falling(b)))
}

/// Expected board after an operation that moves signal `sel` (a DASR bit) from its old level to
/// `new_level`, starting from `exp` (already carrying the operation's direct effects).
fn apply_signal(exp: &mut Board, old: &Board, sel: u8, bit: DASR, new_level: bool) {
    let old_level = old.dasr.contains(bit);
    if raised(old, sel, old_level, new_level) {
        exp.daisr.insert(DAISR::SOURCE | DAISR::INTERRUPT_FF);
    }
    exp.dasr.set(bit, new_level);
}

// ------------------------------------------------------------------ B.clamp (external analog inputs)
#[cfg_attr(kani, kani::proof)]
pub(crate) fn c14_set_temp() {
    let mut b = any_board();
    vassume(inv_board(&b));
    let old = b.clone();
    let v: f32 = vany();
    vcover!(v != v, "pre.nan");
    vcover!(v > 5.0, "pre.above");
    vcover!(source_sel(&old) == 5, "pre.comp2-selected");
    b.set_temp(v);
    vassert!(b.temp == clamp_ref(v), "C14.B.clamp.temperature");
    let mut exp = old.clone();
    exp.temp = b.temp;
    let c = cmp2_ref(&exp);
    apply_signal(&mut exp, &old, 5, DASR::COMP_DAC2, c);
    vassert!(b.dasr.contains(DASR::COMP_DAC2) == c, "C14.B.comp2.follows-temperature");
    vassert!(b.daisr == exp.daisr, "C14.B.edge.comp2-by-temperature");
    vassert!(board_same(&b, &exp), "C14.B.frame.set_temp");
    vassert!(inv_board(&b), "C14.B.inv.set_temp");
}

#[cfg_attr(kani, kani::proof)]
pub(crate) fn c14_set_analog_input1() {
    let mut b = any_board();
    vassume(inv_board(&b));
    let old = b.clone();
    let v: f32 = vany();
    vcover!(v != v, "pre.nan");
    vcover!(source_sel(&old) == 4 && falling(&old), "pre.comp1-falling");
    b.set_analog_input1(v);
    vassert!(b.analog_inputs[0] == clamp_ref(v), "C14.B.clamp.analog-input-1");
    let mut exp = old.clone();
    exp.analog_inputs[0] = b.analog_inputs[0];
    let c = cmp1_ref(&exp);
    apply_signal(&mut exp, &old, 4, DASR::COMP_DAC1, c);
    vassert!(b.dasr.contains(DASR::COMP_DAC1) == c, "C14.B.comp1.follows-analog-input");
    vassert!(b.daisr == exp.daisr, "C14.B.edge.comp1-by-analog-input");
    vassert!(board_same(&b, &exp), "C14.B.frame.set_analog_input1");
    vassert!(inv_board(&b), "C14.B.inv.set_analog_input1");
}

#[cfg_attr(kani, kani::proof)]
pub(crate) fn c14_set_analog_input2() {
    let mut b = any_board();
    vassume(inv_board(&b));
    let old = b.clone();
    let v: f32 = vany();
    vcover!(v < 0.0, "pre.below");
    b.set_analog_input2(v);
    vassert!(b.analog_inputs[1] == clamp_ref(v), "C14.B.clamp.analog-input-2");
    let mut exp = old.clone();
    exp.analog_inputs[1] = b.analog_inputs[1];
    let c = cmp2_ref(&exp);
    apply_signal(&mut exp, &old, 5, DASR::COMP_DAC2, c);
    vassert!(b.dasr.contains(DASR::COMP_DAC2) == c, "C14.B.comp2.follows-analog-input");
    vassert!(b.daisr == exp.daisr, "C14.B.edge.comp2-by-analog-input");
    vassert!(board_same(&b, &exp), "C14.B.frame.set_analog_input2");
    vassert!(inv_board(&b), "C14.B.inv.set_analog_input2");
}

// ------------------------------------------------------------------------------- B.dac (port writes)
#[cfg_attr(kani, kani::proof)]
pub(crate) fn c14_set_digital_output1() {
    let mut b = any_board();
    vassume(inv_board(&b));
    let old = b.clone();
    let byte: u8 = vany();
    vcover!(source_sel(&old) == 4 && !falling(&old) && !old.dasr.contains(DASR::COMP_DAC1), "pre.comp1-rising");
    b.set_digital_output1(byte);
    vassert!(b.digital_output1 == byte, "C14.B.dac1.byte");
    vassert!(b.analog_outputs[0].to_bits() == dac_volt(byte).to_bits(), "C14.B.dac1.voltage-is-byte-over-100");
    let mut exp = old.clone();
    exp.digital_output1 = byte;
    exp.analog_outputs[0] = dac_volt(byte);
    let c = cmp1_ref(&exp);
    apply_signal(&mut exp, &old, 4, DASR::COMP_DAC1, c);
    exp.dasr.insert(DASR::FAN);
    exp.fan_rpm = b.fan_rpm; // the fan law is B.fan's clause
    vassert!(b.dasr.contains(DASR::COMP_DAC1) == c, "C14.B.comp1.follows-dac-write");
    vassert!(b.daisr == exp.daisr, "C14.B.edge.comp1-by-dac-write");
    vassert!(board_same(&b, &exp), "C14.B.frame.set_digital_output1");
    vassert!(inv_board(&b), "C14.B.inv.set_digital_output1");
    // B.fan: period register = 255 - 255 * V / 2.55 V  (= 255 - byte), within one LSB
    let p = b.get_fan_period() as i32;
    let want = 255 - byte as i32;
    vassert!(p - want <= 1 && want - p <= 1, "C14.B.fan.period-law");
}

#[cfg_attr(kani, kani::proof)]
pub(crate) fn c14_set_digital_output2() {
    let mut b = any_board();
    vassume(inv_board(&b));
    let old = b.clone();
    let byte: u8 = vany();
    vcover!(source_sel(&old) == 5, "pre.comp2-selected");
    b.set_digital_output2(byte);
    vassert!(b.digital_output2 == byte, "C14.B.dac2.byte");
    vassert!(b.analog_outputs[1].to_bits() == dac_volt(byte).to_bits(), "C14.B.dac2.voltage-is-byte-over-100");
    let mut exp = old.clone();
    exp.digital_output2 = byte;
    exp.analog_outputs[1] = dac_volt(byte);
    let c = cmp2_ref(&exp);
    apply_signal(&mut exp, &old, 5, DASR::COMP_DAC2, c);
    vassert!(b.dasr.contains(DASR::COMP_DAC2) == c, "C14.B.comp2.follows-dac-write");
    vassert!(b.daisr == exp.daisr, "C14.B.edge.comp2-by-dac-write");
    vassert!(board_same(&b, &exp), "C14.B.frame.set_digital_output2");
    vassert!(inv_board(&b), "C14.B.inv.set_digital_output2");
}

// ------------------------------------------------------------------------ jumpers, input port, UIO
#[cfg_attr(kani, kani::proof)]
pub(crate) fn c14_jumpers_and_input_port() {
    let mut b = any_board();
    vassume(inv_board(&b));
    let old = b.clone();
    let which: u8 = vany();
    vassume(which < 3);
    let level: bool = vany();
    let byte: u8 = vany();
    vcover!(which == 0 && source_sel(&old) == 6, "pre.jumper1-selected");
    let mut exp = old.clone();
    match which {
        0 => {
            b.set_jumper1(level);
            apply_signal(&mut exp, &old, 6, DASR::J1, level);
            vassert!(b.dasr.contains(DASR::J1) == level, "C14.B.jumper1.level-as-applied");
            vassert!(b.daisr == exp.daisr, "C14.B.edge.jumper1");
        }
        1 => {
            b.set_jumper2(level);
            exp.dasr.set(DASR::J2, level);
            vassert!(b.dasr.contains(DASR::J2) == level, "C14.B.jumper2.level-as-applied");
            vassert!(b.daisr == old.daisr, "C14.B.edge.jumper2-never-interrupts");
        }
        _ => {
            b.set_digital_input1(byte);
            exp.digital_input1 = byte;
            vassert!(*b.digital_input1() == byte, "C14.B.input-port.as-applied");
        }
    }
    vassert!(board_same(&b, &exp), "C14.B.frame.jumpers-input-port");
    vassert!(inv_board(&b), "C14.B.inv.jumpers-input-port");
}

#[cfg_attr(kani, kani::proof)]
pub(crate) fn c14_uio_external() {
    let mut b = any_board();
    vassume(inv_board(&b));
    let old = b.clone();
    let k: u8 = vany();
    vassume(k < 3);
    let level: bool = vany();
    vcover!(old.uio_dir[k as usize], "pre.configured-as-output");
    vcover!(!old.uio_dir[k as usize] && source_sel(&old) == k + 1, "pre.input-and-selected");
    match k {
        0 => b.set_universal_input_output1(level),
        1 => b.set_universal_input_output2(level),
        _ => b.set_universal_input_output3(level),
    }
    let bit = match k {
        0 => DASR::UIO_1,
        1 => DASR::UIO_2,
        _ => DASR::UIO_3,
    };
    let mut exp = old.clone();
    if old.uio_dir[k as usize] {
        // configured as output: the external change is ignored entirely
        vassert!(board_same(&b, &old), "C14.B.uio.ignored-when-output");
    } else {
        apply_signal(&mut exp, &old, k + 1, bit, level);
        vassert!(b.dasr.contains(bit) == level, "C14.B.uio.visible-at-once-when-input");
        vassert!(b.daisr == exp.daisr, "C14.B.edge.uio");
        vassert!(board_same(&b, &exp), "C14.B.frame.uio");
    }
    vassert!(inv_board(&b), "C14.B.inv.uio");
}

// ------------------------------------------------------------- UOR / UDR / ICR (writes to 0xF2), F3
#[cfg_attr(kani, kani::proof)]
pub(crate) fn c14_control_registers() {
    let mut b = any_board();
    vassume(inv_board(&b));
    let old = b.clone();
    let byte: u8 = vany();
    let which: u8 = vany();
    vassume(which < 4);
    vcover!(which == 2, "pre.icr");
    let mut exp = old.clone();
    match which {
        0 => {
            b.set_udr(byte);
            exp.uio_dir = [byte & 1 != 0, byte & 2 != 0, byte & 4 != 0];
            vassert!(board_same(&b, &exp), "C14.B.udr.sets-directions-only");
        }
        1 => {
            b.set_uor(byte);
            exp.dasr.set(DASR::UIO_1, byte & 1 != 0);
            exp.dasr.set(DASR::UIO_2, byte & 2 != 0);
            exp.dasr.set(DASR::UIO_3, byte & 4 != 0);
            vassert!(board_same(&b, &exp), "C14.B.uor.sets-uio-levels-only");
        }
        2 => {
            b.set_icr(byte);
            exp.daicr = DAICR::from_bits_truncate(byte);
            exp.daisr.remove(DAISR::INTERRUPT_PENDING | DAISR::INTERRUPT_REQUESTED | DAISR::INTERRUPT_FF);
            vassert!(b.daicr.bits() == byte & 0x3F, "C14.B.icr.configuration-as-written");
            vassert!(board_same(&b, &exp), "C14.B.icr.frame");
        }
        _ => {
            b.delete_int_ff();
            exp.daisr.remove(DAISR::INTERRUPT_FF);
            vassert!(board_same(&b, &exp), "C14.B.f3.clears-flip-flop-only");
        }
    }
    vassert!(inv_board(&b), "C14.B.inv.control-registers");
}

/// Base case: the power-on board satisfies I.board.
#[cfg_attr(kani, kani::proof)]
pub(crate) fn c14_init() {
    vcover!(true, "pre");
    vassert!(inv_board(&Board::new()), "C14.B.inv.power-on");
}

#[cfg_attr(kani, kani::proof)]
pub(crate) fn c14_canary() {
    let mut b = any_board();
    vassume(inv_board(&b));
    let v: f32 = vany();
    b.set_analog_input1(v);
    // wrong on purpose: claims the stored value is always the argument
    vassert!(b.analog_inputs[0].to_bits() == v.to_bits(), "CANARY");
}

crate::replay_table!(verif_replay_c14;
    c14_set_temp, c14_set_analog_input1, c14_set_analog_input2, c14_set_digital_output1,
    c14_set_digital_output2, c14_jumpers_and_input_port, c14_uio_external, c14_control_registers,
    c14_init, c14_canary,
);
