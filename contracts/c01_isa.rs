// C01 — the instruction-set reference `isa_exec` and the instruction-boundary predicate
// (injected as `machine::raw::verif_isa`).  Specification only; no repository code.
//
// Abstract view at an instruction boundary: R0..R5 (R3 = PC pointing at the byte after the opcode,
// R4 = flag register with all 8 bits, R5 = SP) and the bus (RAM, output registers, I/O registers).
// Memory accesses of the instruction go through `Bus::read` / `Bus::write`, whose own contracts are
// C10/C14 — so an access to an I/O address has the effect that contract gives it.
// R6, R7, micro-address, latches and cycle counts are not part of the view.
//
// Rules demanded by the statement: MUL carry <=> product > 255; DIV by zero => 0xFF, carry set;
// SUB/CMP/DEC borrow in carry; MOV/LD/ST/PUSH/POP/CLR/jumps leave the flags alone.  The remaining
// flag rules (which instructions write C/Z/N, EI/DI on the upper flag bits, LDSP setting Z/N) are
// transcribed from the microprogram listing and are "characterised from the pinned tree".
use super::verif_st_raw::*;
use super::*;
use crate::machine::bus::verif_st_bus::*;
use crate::verif_shim::*;

#[derive(Clone)]
pub(crate) struct View {
    pub r: [u8; 6],
    pub bus: Bus,
}

pub(crate) const PC: usize = 3;
pub(crate) const FR: usize = 4;
pub(crate) const SP: usize = 5;

impl View {
    pub(crate) fn rd(&self, a: u8) -> u8 {
        self.bus.read(a)
    }
    pub(crate) fn wr(&mut self, a: u8, v: u8) {
        self.bus.write(a, v)
    }
    /// next byte of the instruction stream
    pub(crate) fn fetch(&mut self) -> u8 {
        let b = self.rd(self.r[PC]);
        self.r[PC] = self.r[PC].wrapping_add(1);
        b
    }
    pub(crate) fn carry(&self) -> bool {
        self.r[FR] & 1 != 0
    }
    /// write C, Z, N; IE and the upper four bits are kept
    pub(crate) fn set_czn(&mut self, c: bool, v: u8) {
        self.r[FR] = (self.r[FR] & 0xF8) | (c as u8) | (((v == 0) as u8) << 1) | (((v >= 0x80) as u8) << 2);
    }
}

/// Is the one-byte opcode `k` one the assembler can emit (the quantifier of C01)?
pub(crate) fn emittable_single(k: u8) -> bool {
    match k {
        0x01 | 0x02 | 0x04..=0x07 | 0x08 | 0x0C => true,
        0x10..=0x17 | 0x18 | 0x1C => true,
        0x20..=0x23 | 0x25..=0x27 | 0x28 | 0x2C => true,
        0x30..=0x4B => true,
        0x50..=0x53 => true,
        0x60..=0xDF => true,
        _ => false,
    }
}

fn add8(a: u8, b: u8, c: u8) -> (u8, bool) {
    let s = a as u16 + b as u16 + c as u16;
    ((s & 0xFF) as u8, s > 0xFF)
}
/// a - b: result and borrow
fn sub8(a: u8, b: u8) -> (u8, bool) {
    (a.wrapping_sub(b), a < b)
}

/// One-byte instructions (everything except the 0xF_ two-byte forms and MUL/DIV, which have their
/// own loop contracts below).  `k` is the opcode; `v.r[PC]` already points behind it.
pub(crate) fn isa_single(v: &mut View, k: u8) {
    let d = (k & 3) as usize;
    let s = ((k >> 2) & 3) as usize;
    match k >> 4 {
        0x0 => match s {
            0 => {}                           // NOP (0x01 STOP halts, see the STOP triple)
            1 => v.r[d] = 0,                  // CLR Rd: flags untouched
            2 => v.r[FR] |= 0xF8,             // EI (sets IE; the sign-extended constant also sets bits 4-7)
            _ => v.r[FR] &= 0x07,             // DI
        },
        0x1 => match s {
            0 => {
                // PUSH Rn
                let val = v.r[d];
                v.r[SP] = v.r[SP].wrapping_sub(1);
                v.wr(v.r[SP], val);
            }
            1 => {
                // POP Rn (0x17 = RET)
                let val = v.rd(v.r[SP]);
                v.r[d] = val;
                v.r[SP] = v.r[SP].wrapping_add(1);
            }
            2 => {
                // PUSHF
                let val = v.r[FR];
                v.r[SP] = v.r[SP].wrapping_sub(1);
                v.wr(v.r[SP], val);
            }
            _ => {
                // POPF
                v.r[FR] = v.rd(v.r[SP]);
                v.r[SP] = v.r[SP].wrapping_add(1);
            }
        },
        0x2 => {
            if k & 0x08 == 0 {
                // JR cond, offset: taken <=> bit2 XOR (always | C | Z | N)
                let f = v.r[FR];
                let sel = match k & 3 {
                    0 => true,
                    1 => f & 1 != 0,
                    2 => f & 2 != 0,
                    _ => f & 4 != 0,
                };
                let taken = sel != (k & 4 != 0);
                if taken {
                    let off = v.rd(v.r[PC]);
                    // target = address of the next instruction + offset
                    v.r[PC] = v.r[PC].wrapping_add(1).wrapping_add(off);
                } else {
                    v.r[PC] = v.r[PC].wrapping_add(1);
                }
            } else if k & 0x04 == 0 {
                // CALL addr: push the return address, then jump to the address byte
                let a = v.r[PC];
                v.r[SP] = v.r[SP].wrapping_sub(1);
                v.wr(v.r[SP], a.wrapping_add(1));
                v.r[PC] = v.rd(a);
            } else {
                // RETI: pop PC, pop FR
                v.r[PC] = v.rd(v.r[SP]);
                v.r[SP] = v.r[SP].wrapping_add(1);
                v.r[FR] = v.rd(v.r[SP]);
                v.r[SP] = v.r[SP].wrapping_add(1);
            }
        }
        0x3 => {
            let a = v.r[d];
            match s {
                0 => {
                    // COM
                    v.r[d] = !a;
                    v.set_czn(false, !a);
                }
                1 => {
                    // NEG = complement + 1
                    let (res, c) = add8(!a, 1, 0);
                    v.r[d] = res;
                    v.set_czn(c, res);
                }
                2 => {
                    v.r[d] = a >> 1;
                    v.set_czn(a & 1 != 0, a >> 1);
                }
                _ => {
                    let res = (a >> 1) | (a & 0x80);
                    v.r[d] = res;
                    v.set_czn(a & 1 != 0, res);
                }
            }
        }
        0x4 => {
            let a = v.r[d];
            match s {
                0 => {
                    // RRC
                    let res = (a >> 1) | ((v.carry() as u8) << 7);
                    v.r[d] = res;
                    v.set_czn(a & 1 != 0, res);
                }
                1 => {
                    let (res, c) = add8(a, 1, 0);
                    v.r[d] = res;
                    v.set_czn(c, res);
                }
                _ => {
                    // TST (s == 2; s == 3 is undefined)
                    v.set_czn(false, a);
                }
            }
        }
        0x5 => {
            // DEC Rd (register mode): borrow in carry
            let (res, b) = sub8(v.r[d], 1);
            v.r[d] = res;
            v.set_czn(b, res);
        }
        0x6 => {
            let (res, c) = add8(v.r[d], v.r[s], 0);
            v.r[d] = res;
            v.set_czn(c, res);
        }
        0x7 => {
            let (res, c) = add8(v.r[d], v.r[s], v.carry() as u8);
            v.r[d] = res;
            v.set_czn(c, res);
        }
        0x8 => {
            let (res, b) = sub8(v.r[d], v.r[s]);
            v.r[d] = res;
            v.set_czn(b, res);
        }
        0x9 => {
            let res = v.r[d] & v.r[s];
            v.r[d] = res;
            v.set_czn(false, res);
        }
        0xA => {
            let res = v.r[d] | v.r[s];
            v.r[d] = res;
            v.set_czn(false, res);
        }
        0xD => {
            let res = v.r[d] ^ v.r[s];
            v.r[d] = res;
            v.set_czn(false, res);
        }
        _ => {}
    }
}

/// MUL Rd, Rs: 8-bit product, carry <=> product > 255.
pub(crate) fn isa_mul(v: &mut View, k: u8) {
    let d = (k & 3) as usize;
    let s = ((k >> 2) & 3) as usize;
    let p = v.r[d] as u16 * v.r[s] as u16;
    let res = (p & 0xFF) as u8;
    v.r[d] = res;
    v.set_czn(p > 0xFF, res);
}

/// DIV Rd, Rs: quotient; by zero: 0xFF with carry set.
pub(crate) fn isa_div(v: &mut View, k: u8) {
    let d = (k & 3) as usize;
    let s = ((k >> 2) & 3) as usize;
    if v.r[s] == 0 {
        v.r[d] = 0xFF;
        v.set_czn(true, 0xFF);
    } else {
        let q = v.r[d] / v.r[s];
        v.r[d] = q;
        v.set_czn(false, q);
    }
}

/// Source phase of a two-byte instruction (first byte 0xF0 | MM<<2 | RR): operand value, with the
/// post-increment of the source register; then the second opcode byte is fetched.
/// Returns (operand, second byte).
pub(crate) fn isa_source(v: &mut View, k: u8) -> (u8, u8) {
    let r = (k & 3) as usize;
    let val = match (k >> 2) & 3 {
        0 => v.r[r],
        1 => v.rd(v.r[r]),
        2 => {
            let x = v.rd(v.r[r]);
            v.r[r] = v.r[r].wrapping_add(1);
            x
        }
        _ => {
            let p = v.rd(v.r[r]);
            let x = v.rd(p);
            v.r[r] = v.r[r].wrapping_add(1);
            x
        }
    };
    let second = v.fetch();
    (val, second)
}

/// Destination operand access: returns the current destination value and a token saying where the
/// result goes.  Post-increment (modes 10, 11) is applied by `dest_finish`.
pub(crate) enum Place {
    Reg(usize),
    Mem(u8),
}
pub(crate) fn dest_place(v: &View, k2: u8) -> Place {
    let r = (k2 & 3) as usize;
    match (k2 >> 2) & 3 {
        0 => Place::Reg(r),
        1 | 2 => Place::Mem(v.r[r]),
        _ => Place::Mem(v.rd(v.r[r])),
    }
}
pub(crate) fn place_get(v: &View, p: &Place) -> u8 {
    match p {
        Place::Reg(r) => v.r[*r],
        Place::Mem(a) => v.rd(*a),
    }
}
pub(crate) fn place_set(v: &mut View, p: &Place, x: u8) {
    match p {
        Place::Reg(r) => v.r[*r] = x,
        Place::Mem(a) => v.wr(*a, x),
    }
}
pub(crate) fn dest_finish(v: &mut View, k2: u8) {
    let r = (k2 & 3) as usize;
    if (k2 >> 2) & 2 != 0 {
        v.r[r] = v.r[r].wrapping_add(1);
    }
}

/// Destination phase (second byte `k2`, operand `src`).
pub(crate) fn isa_dest(v: &mut View, k2: u8, src: u8) {
    match k2 >> 4 {
        0x1 => {
            // MOV: flags untouched
            let p = dest_place(v, k2);
            place_set(v, &p, src);
            dest_finish(v, k2);
        }
        0x2 => {
            // CMP: dst - src, flags only, borrow in carry
            let p = dest_place(v, k2);
            let (res, b) = sub8(place_get(v, &p), src);
            dest_finish(v, k2);
            v.set_czn(b, res);
        }
        0x3 => {
            // BITT: dst & src, flags only
            let p = dest_place(v, k2);
            let res = place_get(v, &p) & src;
            dest_finish(v, k2);
            v.set_czn(false, res);
        }
        0x4 => {
            if k2 & 0x04 == 0 {
                // LDSP (sets Z/N from the value, clears C — characterised)
                v.r[SP] = src;
                v.set_czn(false, src);
            } else {
                // LDFR: the whole flag register is loaded
                v.r[FR] = src;
            }
        }
        0x5 => {
            // BITS: dst |= src
            let p = dest_place(v, k2);
            let res = place_get(v, &p) | src;
            place_set(v, &p, res);
            dest_finish(v, k2);
            v.set_czn(false, res);
        }
        0x6 => {
            // BITC: dst &= !src
            let p = dest_place(v, k2);
            let res = place_get(v, &p) & !src;
            place_set(v, &p, res);
            dest_finish(v, k2);
            v.set_czn(false, res);
        }
        _ => {}
    }
}

// ------------------------------------------------------------------------------- boundary
/// B: "an instruction-fetch word has just executed" — the state `trigger_key_clock` (assembly mode)
/// returns in.  The opcode byte is on the bus latch, PC+1 is the pending register write, the memory
/// wait of the fetch is pending iff the opcode came from RAM.
pub(crate) fn at_boundary(m: &RawMachine) -> bool {
    let w = cur_word(m);
    let pc_old = reg(m, 3);
    w.contains(Word::MAC3) && w.contains(Word::MAC2) && w.contains(Word::MAC0) && !w.contains(Word::MAC1)
        && m.state == State::Running
        && m.pending_register_write == Some(RegisterNumber::R3)
        && m.alu_output.output() == pc_old.wrapping_add(1)
        && m.pending_flag_write.is_none()
        && m.last_bus_read == m.bus.read(pc_old)
        && m.pending_wait_for_memory.is_some() == (pc_old <= 0xEF)
        && m.pending_level_interrupt.is_none()
}

/// B2: the "zweiter opcode" word has just executed (between the two phases of a 0xF_ instruction).
pub(crate) fn at_second_fetch(m: &RawMachine) -> bool {
    let w = cur_word(m);
    let pc_old = reg(m, 3);
    !w.contains(Word::MAC3) && w.contains(Word::MAC2) && w.contains(Word::MAC0) && !w.contains(Word::MAC1)
        && m.state == State::Running
        && m.pending_register_write == Some(RegisterNumber::R3)
        && m.alu_output.output() == pc_old.wrapping_add(1)
        && m.pending_flag_write.is_none()
        && m.last_bus_read == m.bus.read(pc_old)
        && m.pending_wait_for_memory.is_some() == (pc_old <= 0xEF)
        && m.pending_level_interrupt.is_none()
}

/// The view of a machine at B / B2 (pending PC write applied).
pub(crate) fn view_of(m: &RawMachine) -> View {
    View {
        r: [reg(m, 0), reg(m, 1), reg(m, 2), m.alu_output.output(), reg(m, 4), reg(m, 5)],
        bus: m.bus.clone(),
    }
}

/// view(m) == v: registers, every non-RAM part of the bus, and RAM at a symbolic index.
pub(crate) fn view_matches(m: &RawMachine, v: &View) -> bool {
    let got = view_of(m);
    let i: usize = vany();
    vassume(i < 0xF0);
    #[cfg(verif_replay)]
    {
        println!("DEBUG view got.r={:02X?} exp.r={:02X?} ram_i={} got={:02X} exp={:02X} bus_rest_same={} maddr={:03X} ir={:02X}",
            got.r, v.r, i, ram_of(&got.bus)[i], ram_of(&v.bus)[i], bus_same_but_ram(&got.bus, &v.bus), maddr(m), ir(m));
    }
    got.r[0] == v.r[0] && got.r[1] == v.r[1] && got.r[2] == v.r[2] && got.r[3] == v.r[3] && got.r[4] == v.r[4] && got.r[5] == v.r[5]
        && bus_same_but_ram(&got.bus, &v.bus) && ram_of(&got.bus)[i] == ram_of(&v.bus)[i]
}
