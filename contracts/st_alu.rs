// Symbolic `AluOutput` latch (injected as `machine::alu::verif_st_alu`).
use super::*;
use crate::verif_shim::*;

/// The latch holds whatever was stored last; its four parts are taken as independent symbolic
/// values (a superset of what the ALU can produce: the power-on value output=0/zero_out=false is
/// not an ALU result either).
pub(crate) fn any_alu_output() -> AluOutput {
    AluOutput {
        output: vany(),
        carry_out: vany(),
        zero_out: vany(),
        negative_out: vany(),
    }
}

pub(crate) fn mk_alu_output(output: u8, carry_out: bool, zero_out: bool, negative_out: bool) -> AluOutput {
    AluOutput { output, carry_out, zero_out, negative_out }
}
