// (NOT REGISTERED: the verifier does not finish on these harnesses, see MANIFEST level_note of C06)
// C06 — contract of the parser's label validation `validate_lines` (the function that establishes
// the precondition "every referenced label is defined" the translator relies on)
// (injected as `parser::implementation::verif_c06v`).
//
//   ensures  validate_lines(lines).is_ok()  ==>  every label referenced by an operand in ANY position
//            is defined by a label line or an .EQU (compared case-insensitively)
// checked per operand position: a one-instruction program that references the undefined label `q`
// next to an unrelated definition must be REJECTED; the same program with `Q:` defined is accepted.
use super::*;
use crate::parser::{Constant, Destination, Instruction, Line, MemAddress, Register, RegisterDi, Source};
use crate::verif_shim::*;
use crate::{vassert, vcover};

fn lbl() -> String {
    "q".to_string()
}
fn check(inst: Instruction) {
    vcover!(true, "pre");
    let undefined = vec![Line::Label("Z".to_string(), None), Line::Instruction(inst.clone(), None)];
    vassert!(validate_lines(&undefined).is_err(), "C06.V.validate.rejects-undefined-label-in-this-position");
    let defined = vec![Line::Label("Q".to_string(), None), Line::Instruction(inst, None)];
    vassert!(validate_lines(&defined).is_ok(), "C06.V.validate.accepts-label-defined-in-other-case");
    std::mem::forget(undefined);
    std::mem::forget(defined);
}
macro_rules! position {
    ($name:ident, $inst:expr) => {
        #[cfg_attr(kani, kani::proof)]
        #[cfg_attr(kani, kani::unwind(6))]
        pub(crate) fn $name() {
            #[allow(unused_imports)]
            use Instruction::*;
            check($inst);
        }
    };
}
fn mem() -> MemAddress {
    MemAddress::Constant(Constant::Label(lbl()))
}
position!(c06_v_jmp, Jmp(lbl()));
position!(c06_v_jr, Jr(lbl()));
position!(c06_v_jcs, Jcs(lbl()));
position!(c06_v_jcc, Jcc(lbl()));
position!(c06_v_jzs, Jzs(lbl()));
position!(c06_v_jzc, Jzc(lbl()));
position!(c06_v_jns, Jns(lbl()));
position!(c06_v_jnc, Jnc(lbl()));
position!(c06_v_call, Call(lbl()));
position!(c06_v_ld_const, LdConstant(Register::R0, Constant::Label(lbl())));
position!(c06_v_ld_mem, LdMemAddress(Register::R0, mem()));
position!(c06_v_st, St(mem(), Register::R0));
position!(c06_v_dec_const, Dec(Source::Constant(Constant::Label(lbl()))));
position!(c06_v_dec_mem, Dec(Source::MemAddress(mem())));
position!(c06_v_ldsp_const, Ldsp(Source::Constant(Constant::Label(lbl()))));
position!(c06_v_ldsp_mem, Ldsp(Source::MemAddress(mem())));
position!(c06_v_ldfr_const, Ldfr(Source::Constant(Constant::Label(lbl()))));
position!(c06_v_ldfr_mem, Ldfr(Source::MemAddress(mem())));
position!(c06_v_mov_src_const, Mov(Destination::Register(Register::R1), Source::Constant(Constant::Label(lbl()))));
position!(c06_v_mov_src_mem, Mov(Destination::Register(Register::R1), Source::MemAddress(mem())));
position!(c06_v_mov_dst_mem, Mov(Destination::MemAddress(mem()), Source::Register(Register::R1)));
position!(c06_v_cmp_src_mem, Cmp(Destination::Register(Register::R1), Source::MemAddress(mem())));
position!(c06_v_cmp_dst_mem, Cmp(Destination::MemAddress(mem()), Source::RegisterDi(RegisterDi(Register::R1))));
position!(c06_v_bitt_src_const, Bitt(Destination::Register(Register::R1), Source::Constant(Constant::Label(lbl()))));
position!(c06_v_bits_dst_mem, Bits(Destination::MemAddress(mem()), Source::Register(Register::R1)));
position!(c06_v_bitc_src_mem, Bitc(Destination::Register(Register::R1), Source::MemAddress(mem())));

crate::replay_table!(verif_replay_c06v;
    c06_v_jmp, c06_v_jr, c06_v_jcs, c06_v_jcc, c06_v_jzs, c06_v_jzc, c06_v_jns, c06_v_jnc, c06_v_call, c06_v_ld_const, c06_v_ld_mem, c06_v_st,
    c06_v_dec_const, c06_v_dec_mem, c06_v_ldsp_const, c06_v_ldsp_mem, c06_v_ldfr_const, c06_v_ldfr_mem, c06_v_mov_src_const, c06_v_mov_src_mem,
    c06_v_mov_dst_mem, c06_v_cmp_src_mem, c06_v_cmp_dst_mem, c06_v_bitt_src_const, c06_v_bits_dst_mem, c06_v_bitc_src_mem,
);
