// C12 — re-exports for the runner's contract module (`machine::raw` is private to `machine`)
// (injected as `machine::verif_c12m`).
pub(crate) use super::raw::verif_c12r::*;
pub(crate) use super::raw::verif_st_raw::{any_raw, any_state};
