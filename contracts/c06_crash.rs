// C06 — "every program the parser accepts can be compiled and loaded without a crash": no-panic
// postconditions of `Translator::push_instruction`, `Translator::finish` and `Machine::load` under
// the precondition "AST accepted by the parser" (injected as `compiler::verif_c06`).
//
// "Returns normally" = Kani's generated obligations on the real code (panic!, unimplemented!,
// expect, arithmetic overflow, index out of bounds).  Where the unchanged tree does crash for an
// accepted program, the obligation is split into the region that must hold and a *_known harness
// for the recorded finding (see /verif/known_findings.json).
use super::verif_c02::*;
use super::*;
use crate::verif_shim::*;
use crate::{vassert, vcover};

macro_rules! no_crash {
    ($name:ident, $inst:expr) => {
        #[cfg_attr(kani, kani::proof)]
        #[cfg_attr(kani, kani::unwind(8))]
        #[cfg_attr(kani, kani::stub(std::hash::RandomState::new, fixed_random_state))]
        pub(crate) fn $name() {
            // any position of the address counter that leaves room for the instruction in the
            // 8-bit address space (the overflow beyond it is the recorded finding c06_image_overflow_known)
            let mut tr = any_translator();
            vassume(tr.next_addr <= 0xFF - 4);
            #[allow(unused_imports)]
            use Instruction::*;
            let inst: Instruction = $inst;
            vcover!(tr.next_addr == 0xFB, "pre.near-the-end");
            tr.push_instruction(&inst, &None);
            vassert!(tr.bytes.len() == 1, "C06.P.push.returns-normally");
            // what `finish` will do with the emitted items: a relative-offset closure is applied to the
            // label's address, whatever that address is
            let mut i = 0;
            while i < tr.bytes[0].1.len() {
                if let ByteOrLabel::LabelFn(_, f) = &tr.bytes[0].1[i] {
                    let target: u8 = vany();
                    let _ = (**f)(target);
                    vassert!(true, "C06.P.finish.offset-closure-returns-normally");
                }
                i += 1;
            }
            std::mem::forget(tr);
        }
    };
}
// every operand shape the grammar admits for DEC (the form the unchanged tree crashed on)
no_crash!(c06_dec_reg, Dec(Source::Register(any_reg())));
no_crash!(c06_dec_ind, Dec(Source::MemAddress(MemAddress::Register(any_reg()))));
no_crash!(c06_dec_abs, Dec(Source::MemAddress(MemAddress::Constant(Constant::Constant(vany())))));
no_crash!(c06_dec_const, Dec(Source::Constant(Constant::Constant(vany()))));
no_crash!(c06_dec_inc, Dec(Source::RegisterDi(RegisterDi(any_reg()))));
no_crash!(c06_dec_dinc, Dec(Source::RegisterDdi(RegisterDdi(any_reg()))));
no_crash!(c06_clr, Clr(any_reg()));
no_crash!(c06_add, Add(any_reg(), any_reg()));
no_crash!(c06_lsl, Lsl(any_reg()));
no_crash!(c06_rlc, Rlc(any_reg()));
no_crash!(c06_push, Push(any_reg()));
no_crash!(c06_jmp, Jmp(SRC_LABEL.to_string()));
no_crash!(c06_jr, Jr(SRC_LABEL.to_string()));
no_crash!(c06_jcs, Jcs(SRC_LABEL.to_string()));
no_crash!(c06_jnc, Jnc(SRC_LABEL.to_string()));
no_crash!(c06_call, Call(SRC_LABEL.to_string()));
no_crash!(c06_stop, Stop);
no_crash!(c06_ldsp_reg, Ldsp(Source::Register(any_reg())));
no_crash!(c06_stacksize, AsmStacksize(Stacksize::_32));
no_crash!(c06_programsize, AsmProgramsize(Programsize::Size(vany())));

/// .ORG forward or to the current position and .BYTE n never crash (BOUNDED: distance / n <= 5).
#[cfg_attr(kani, kani::proof)]
#[cfg_attr(kani, kani::unwind(8))]
#[cfg_attr(kani, kani::stub(std::hash::RandomState::new, fixed_random_state))]
pub(crate) fn c06_org_forward() {
    let mut tr = any_translator();
    let n: u8 = vany();
    vassume(n <= 5 && tr.next_addr <= 0xFF - 5);
    vcover!(n == 0, "pre.org-here");
    tr.push_instruction(&Instruction::AsmOrigin(tr.next_addr + n), &None);
    vassert!(tr.bytes.len() == 1, "C06.P.push.returns-normally");
    std::mem::forget(tr);
}
#[cfg_attr(kani, kani::proof)]
#[cfg_attr(kani, kani::unwind(8))]
#[cfg_attr(kani, kani::stub(std::hash::RandomState::new, fixed_random_state))]
pub(crate) fn c06_byte() {
    let mut tr = any_translator();
    let n: u8 = vany();
    vassume(n <= 5 && tr.next_addr <= 0xFF - 5);
    vcover!(n == 5, "pre.five");
    tr.push_instruction(&Instruction::AsmByte(n), &None);
    vassert!(tr.bytes.len() == 1, "C06.P.push.returns-normally");
    std::mem::forget(tr);
}

/// KNOWN FINDING region: `.ORG` to an address below the current position is accepted by the parser
/// but aborts the translation with panic!("Compilation aborted").
#[cfg_attr(kani, kani::proof)]
#[cfg_attr(kani, kani::unwind(8))]
#[cfg_attr(kani, kani::stub(std::hash::RandomState::new, fixed_random_state))]
pub(crate) fn c06_org_backward_known() {
    let mut tr = any_translator();
    let a: u8 = vany();
    vassume(a < tr.next_addr);
    vcover!(true, "pre");
    tr.push_instruction(&Instruction::AsmOrigin(a), &None);
    vassert!(tr.bytes.len() == 1, "C06.P.push.returns-normally");
    std::mem::forget(tr);
}

/// KNOWN FINDING region: an image that grows beyond 255 bytes overflows the 8-bit address counter.
#[cfg_attr(kani, kani::proof)]
#[cfg_attr(kani, kani::unwind(8))]
#[cfg_attr(kani, kani::stub(std::hash::RandomState::new, fixed_random_state))]
pub(crate) fn c06_image_overflow_known() {
    let mut tr = any_translator();
    vassume(tr.next_addr == 0xFF);
    vcover!(true, "pre");
    tr.push_instruction(&Instruction::Nop, &None);
    vassert!(tr.bytes.len() == 1, "C06.P.push.returns-normally");
    std::mem::forget(tr);
}

/// Label look-up: a reference in another letter case than the definition (accepted by the parser,
/// which compares labels case-insensitively).  Minimal program: `A:` / `JMP a`.
/// NOT DECIDED: even this two-line program does not finish within 15 min / 9 GB (hashbrown probing and
/// SipHash over heap strings inside CBMC); kept as the statement of the obligation, not registered.
#[allow(dead_code)]
pub(crate) fn c06_x_finish_label_case() {
    let mut tr = Translator::new();
    vcover!(true, "pre");
    tr.push(&Line::Label("A".to_string(), None));
    tr.push(&Line::Instruction(Instruction::Call("a".to_string()), None));
    let code = tr.finish();
    vassert!(code.lines.len() == 2, "C06.P.finish.returns-normally");
    std::mem::forget(code);
}

crate::replay_table!(verif_replay_c06;
    c06_dec_reg, c06_dec_ind, c06_dec_abs, c06_dec_const, c06_dec_inc, c06_dec_dinc, c06_clr, c06_add, c06_lsl, c06_rlc, c06_push,
    c06_jmp, c06_jr, c06_jcs, c06_jnc, c06_call, c06_stop, c06_ldsp_reg, c06_stacksize, c06_programsize, c06_org_forward, c06_byte,
    c06_org_backward_known, c06_image_overflow_known,
);
