// C12 — abstract callee behaviours for checking `RunnerConfig::run` against contracts
// (injected as `machine::raw::verif_c12r`).
use super::verif_st_raw::*;
use super::*;

pub(crate) const LOG_MAX: usize = 40;
pub(crate) static mut LOG: [u8; LOG_MAX] = [0; LOG_MAX];
pub(crate) static mut RUNNING_AFTER: [bool; LOG_MAX] = [false; LOG_MAX];
pub(crate) static mut LEN: usize = 0;

pub(crate) const OP_INTERRUPT: u8 = 1;
pub(crate) const OP_RESET: u8 = 2;
pub(crate) const OP_EDGE: u8 = 3;

#[cfg(kani)]
fn log(op: u8, running: bool) {
    unsafe {
        if LEN < LOG_MAX {
            LOG[LEN] = op;
            RUNNING_AFTER[LEN] = running;
            LEN += 1;
        }
    }
}

/// abstract clock edge: afterwards the machine is Running or halted (anything the contract allows)
#[cfg(kani)]
pub(crate) fn abstract_edge(m: &mut RawMachine) {
    let st = any_state();
    m.state = st;
    log(OP_EDGE, st == State::Running);
}
/// abstract key interrupt: never changes the run state (C05.K.interrupt-key-leaves-run-state)
#[cfg(kani)]
pub(crate) fn abstract_interrupt(m: &mut RawMachine) {
    log(OP_INTERRUPT, m.state == State::Running);
}
/// abstract CPU reset: leaves the machine Running (C07.R.cpu)
#[cfg(kani)]
pub(crate) fn abstract_cpu_reset(m: &mut RawMachine) {
    m.state = State::Running;
    log(OP_RESET, true);
}
