// C07 — contract of `Board::master_reset` (injected as `machine::board::verif_c07b`).
use super::verif_st_board::*;
use super::*;
use crate::verif_shim::*;
use crate::{vassert, vcover};

/// Master-reset postcondition for the board, relative to the pre-state `old`:
/// outputs (both digital/analog output ports, interrupt control, fan, UIO directions) at power-on
/// values; physical inputs (digital input port, analog inputs, temperature, jumpers) bit-identical.
/// DASR bits other than the jumpers and DAISR are not constrained by the statement.
pub(crate) fn board_master_reset_post(old: &Board, new: &Board) -> bool {
    let fresh = Board::new();
    new.digital_output1 == fresh.digital_output1
        && new.digital_output2 == fresh.digital_output2
        && new.analog_outputs[0].to_bits() == fresh.analog_outputs[0].to_bits()
        && new.analog_outputs[1].to_bits() == fresh.analog_outputs[1].to_bits()
        && new.daicr == fresh.daicr
        && new.fan_rpm == fresh.fan_rpm
        && new.uio_dir == fresh.uio_dir
        // physical inputs
        && new.digital_input1 == old.digital_input1
        && new.temp.to_bits() == old.temp.to_bits()
        && new.analog_inputs[0].to_bits() == old.analog_inputs[0].to_bits()
        && new.analog_inputs[1].to_bits() == old.analog_inputs[1].to_bits()
        && new.dasr.contains(DASR::J1) == old.dasr.contains(DASR::J1)
        && new.dasr.contains(DASR::J2) == old.dasr.contains(DASR::J2)
}

/// The physical inputs alone (frame of a CPU reset as far as the board goes is the whole board).
#[cfg_attr(kani, kani::proof)]
pub(crate) fn c07_board_master_reset() {
    let mut b = any_board();
    let old = b.clone();
    vcover!(old.digital_output1 != 0 && old.uio_dir[0], "pre.dirty");
    b.master_reset();
    vassert!(board_master_reset_post(&old, &b), "C07.R.board.master-reset");
}

crate::replay_table!(verif_replay_c07b; c07_board_master_reset,);
