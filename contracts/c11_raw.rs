// C11 — abstract clock edge used to check `Machine::trigger_key_clock` against the edge's CONTRACT
// rather than its body (injected as `machine::raw::verif_c11r`; child of `raw` for field access).
use super::verif_st_raw::*;
use super::*;
use crate::verif_shim::*;

pub(crate) const K: usize = 6;

// ghost log of what the abstract callee did
pub(crate) static mut EDGES: usize = 0;
pub(crate) static mut DONE: [bool; K + 1] = [false; K + 1];
pub(crate) static mut RUNNING: [bool; K + 1] = [false; K + 1];
pub(crate) static mut CHANGED: [bool; K + 1] = [false; K + 1];

/// Any behaviour the edge contract permits, as far as the step loop can observe it: afterwards the
/// machine is at a fetch word or not, Running or halted, and equal to the state before or not.
/// (The loop never calls the edge on a halted machine; nothing else of the edge is relied upon.)
#[cfg(kani)]
pub(crate) fn abstract_edge(m: &mut RawMachine) {
    unsafe {
        let was_done = m.is_instruction_done();
        let was_state = m.state;
        let done: bool = kani::any();
        let st = any_state();
        let other: bool = kani::any();
        // after K edges the abstract run ends (bound of this check): force a halt
        let st = if EDGES + 1 >= K { State::Stopped } else { st };
        m.microprogram_ram.set_address(if done { 0x006 } else { 0x000 });
        m.state = st;
        if other {
            m.last_bus_read = m.last_bus_read.wrapping_add(1);
        }
        EDGES += 1;
        DONE[EDGES] = done;
        RUNNING[EDGES] = st == State::Running;
        CHANGED[EDGES] = done != was_done || st != was_state || other;
    }
}

pub(crate) fn set_control(m: &mut RawMachine, done: bool, st: State) {
    m.microprogram_ram.set_address(if done { 0x006 } else { 0x000 });
    m.state = st;
}
