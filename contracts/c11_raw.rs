// C11 — abstract clock edge used to check `Machine::trigger_key_clock` against the edge's CONTRACT
// rather than its body (injected as `machine::raw::verif_c11r`; child of `raw` for field access).
use super::verif_st_raw::*;
use super::*;
use crate::verif_shim::*;

pub(crate) const K: usize = 6;

// ghost log of what the abstract callee did
pub(crate) static mut EDGES: usize = 0;
pub(crate) static mut DONE: [bool; K + 1] = [false; K + 1];
pub(crate) static mut RUNNING: [bool; K + 1] = [false; K + 1];
pub(crate) static mut CHANGED: [bool; K + 1] = [false; K + 1];

/// Any behaviour the edge contract permits, as far as the step loop can observe it: afterwards the
/// machine is at a fetch word or not, Running or halted, and equal to the state before or not.
/// (The loop never calls the edge on a halted machine; nothing else of the edge is relied upon.)
#[cfg(kani)]
pub(crate) fn abstract_edge(m: &mut RawMachine) {
    unsafe {
        let was_done = m.is_instruction_done();
        let was_state = m.state;
        let done: bool = kani::any();
        let st = any_state();
        let other: bool = kani::any();
        // after K edges the abstract run ends (bound of this check): force a halt
        let st = if EDGES + 1 >= K { State::Stopped } else { st };
        m.microprogram_ram.set_address(if done { 0x006 } else { 0x000 });
        m.state = st;
        if other {
            m.last_bus_read = m.last_bus_read.wrapping_add(1);
        }
        EDGES += 1;
        DONE[EDGES] = done;
        RUNNING[EDGES] = st == State::Running;
        CHANGED[EDGES] = done != was_done || st != was_state || other;
    }
}

pub(crate) fn set_control(m: &mut RawMachine, done: bool, st: State) {
    m.microprogram_ram.set_address(if done { 0x006 } else { 0x000 });
    m.state = st;
}

// ---- the same abstract edge with a long horizon (thorough tier): catches counter-based early exits
pub(crate) const KL: usize = 40;
pub(crate) static mut L_EDGES: usize = 0;
pub(crate) static mut L_FIRST_END: usize = 0; // first edge index after which the step must end (0 = none yet)

/// Long-horizon variant: instead of logging everything, the ghost state tracks the FIRST edge after
/// which the reference semantics ends the step.
#[cfg(kani)]
pub(crate) fn abstract_edge_long(m: &mut RawMachine) {
    unsafe {
        let was_done = m.is_instruction_done();
        // inside an instruction: keep going for a symbolic number of edges, then complete or halt
        let done: bool = kani::any();
        let st = any_state();
        let other: bool = kani::any();
        let st = if L_EDGES + 1 >= KL { State::Stopped } else { st };
        m.microprogram_ram.set_address(if done { 0x006 } else { 0x000 });
        m.state = st;
        if other {
            m.last_bus_read = m.last_bus_read.wrapping_add(1);
        }
        L_EDGES += 1;
        let changed = done != was_done || st != State::Running || other;
        // reference: ends after this edge iff halted, or at a boundary having been inside (the harness
        // starts inside an instruction), or stuck (unchanged while inside)
        let ends = st != State::Running || done || (!done && !changed && !was_done);
        if ends && L_FIRST_END == 0 {
            L_FIRST_END = L_EDGES;
        }
    }
}
