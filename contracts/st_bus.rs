// Symbolic-state constructors and comparison for `Bus` (injected as `machine::bus::verif_st_bus`).
use super::*;
use crate::machine::board::verif_st_board::*;
use crate::verif_shim::*;

pub(crate) fn any_timer() -> InterruptTimer {
    InterruptTimer {
        enabled: vany(),
        div1: vany(),
        div2: vany(),
        div3: vany(),
    }
}

/// Every field symbolic: all 240 RAM bytes, input/output registers, MICR/MISR/UCR/USR (every value
/// of the bit-register types), UART bytes, timer, and the whole board.
pub(crate) fn any_bus() -> Bus {
    Bus {
        ram: Ram(vany()),
        input_reg: vany(),
        output_reg: vany(),
        micr: MICR::from_bits_truncate(vany()),
        misr: MISR::from_bits_truncate(vany()),
        ucr: UCR::from_bits_truncate(vany()),
        usr: USR::from_bits_truncate(vany()),
        uart_send: vany(),
        uart_recv: vany(),
        int_timer: any_timer(),
        board: any_board(),
    }
}

pub(crate) fn wf_bus(b: &Bus) -> bool {
    wf_board(&b.board)
}

pub(crate) fn bus_same(a: &Bus, b: &Bus) -> bool {
    let Bus {
        ram: a0,
        input_reg: a1,
        output_reg: a2,
        micr: a3,
        misr: a4,
        ucr: a5,
        usr: a6,
        uart_send: a7,
        uart_recv: a8,
        int_timer: a9,
        board: a10,
    } = a;
    let Bus {
        ram: b0,
        input_reg: b1,
        output_reg: b2,
        micr: b3,
        misr: b4,
        ucr: b5,
        usr: b6,
        uart_send: b7,
        uart_recv: b8,
        int_timer: b9,
        board: b10,
    } = b;
    a0.0 == b0.0
        && a1 == b1
        && a2 == b2
        && a3 == b3
        && a4 == b4
        && a5 == b5
        && a6 == b6
        && a7 == b7
        && a8 == b8
        && a9 == b9
        && board_same(a10, b10)
}

/// Everything except the RAM array (contracts compare RAM at a symbolic index instead, which states
/// the same "for all cells" without a 240-iteration memcmp).
pub(crate) fn bus_same_but_ram(a: &Bus, b: &Bus) -> bool {
    a.input_reg[0] == b.input_reg[0]
        && a.input_reg[1] == b.input_reg[1]
        && a.input_reg[2] == b.input_reg[2]
        && a.input_reg[3] == b.input_reg[3]
        && a.output_reg[0] == b.output_reg[0]
        && a.output_reg[1] == b.output_reg[1]
        && a.micr == b.micr
        && a.misr == b.misr
        && a.ucr == b.ucr
        && a.usr == b.usr
        && a.uart_send == b.uart_send
        && a.uart_recv == b.uart_recv
        && a.int_timer == b.int_timer
        && board_same(&a.board, &b.board)
}

// Field projections for contracts written outside this module (raw machine).
pub(crate) fn micr_bits(b: &Bus) -> u8 {
    b.micr.bits()
}
pub(crate) fn misr_bits(b: &Bus) -> u8 {
    b.misr.bits()
}
pub(crate) fn ucr_bits(b: &Bus) -> u8 {
    b.ucr.bits()
}
pub(crate) fn set_misr_bits(b: &mut Bus, v: u8) {
    b.misr = MISR::from_bits_truncate(v);
}
pub(crate) fn ram_of(b: &Bus) -> &[u8; 0xF0] {
    &b.ram.0
}
pub(crate) fn ram_mut_of(b: &mut Bus) -> &mut [u8; 0xF0] {
    &mut b.ram.0
}
pub(crate) fn input_regs(b: &Bus) -> [u8; 4] {
    b.input_reg
}
pub(crate) fn output_regs(b: &Bus) -> [u8; 2] {
    b.output_reg
}
pub(crate) fn timer_of(b: &Bus) -> (bool, usize, usize, usize) {
    (b.int_timer.enabled, b.int_timer.div1, b.int_timer.div2, b.int_timer.div3)
}
pub(crate) fn board_of(b: &Bus) -> &Board {
    &b.board
}
pub(crate) fn uart_of(b: &Bus) -> (u8, u8, u8) {
    (b.uart_send, b.uart_recv, b.usr.bits())
}

/// A bus equal to `b` in the CPU projection (RAM, input/output registers, MICR) and arbitrary in the
/// board, MISR, UART bytes / control / status and timer.
pub(crate) fn differ_outside_cpu_projection(b: &Bus) -> Bus {
    let mut o = any_bus();
    o.ram = b.ram.clone();
    o.input_reg = b.input_reg;
    o.output_reg = b.output_reg;
    o.micr = b.micr;
    o
}
/// `b` with everything outside the CPU projection replaced by `like`'s values (to compare projections
/// with the whole-state equality).
pub(crate) fn same_cpu_projection_as(b: &Bus, like: &Bus) -> Bus {
    let mut o = like.clone();
    o.ram = b.ram.clone();
    o.input_reg = b.input_reg;
    o.output_reg = b.output_reg;
    o.micr = b.micr;
    o
}
