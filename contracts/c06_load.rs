// C06 — `Machine::load` never crashes for an image that fits the RAM; beyond 240 bytes it indexes
// out of bounds (recorded finding) (injected as `machine::verif_c06m`).
use super::verif_st_machine::*;
use super::*;
use crate::parser::Line;
use crate::verif_shim::*;
use crate::{vassert, vcover};

/// BOUNDED: images of 0..=6 bytes over two lines (the fill loop is uniform in the address).
#[cfg_attr(kani, kani::proof)]
#[cfg_attr(kani, kani::unwind(10))]
pub(crate) fn c06_load_small_images() {
    let mut m = mk_machine(RawMachine::new(), StepMode::Real);
    let bytes: [u8; 6] = vany();
    let n1: usize = vany();
    let n2: usize = vany();
    vassume(n1 <= 3 && n2 <= 3);
    vcover!(n1 + n2 == 6, "pre.six");
    let program = crate::compiler::ByteCode {
        lines: vec![(Line::Empty(None), bytes[..n1].to_vec()), (Line::Empty(None), bytes[3..3 + n2].to_vec())],
        stacksize: crate::machine::raw::verif_st_raw::any_stacksize(),
        programsize: crate::machine::raw::verif_st_raw::any_programsize(),
    };
    m.load(program);
    vassert!(m.state() == State::Running, "C06.P.load.returns-normally");
}

/// The last RAM cell is loadable: a 240-byte image.
#[cfg_attr(kani, kani::proof)]
#[cfg_attr(kani, kani::unwind(245))]
pub(crate) fn c06_load_full_ram() {
    let mut m = mk_machine(RawMachine::new(), StepMode::Real);
    vcover!(true, "pre");
    let program = crate::compiler::ByteCode {
        lines: vec![(Line::Empty(None), vec![7u8; 240])],
        stacksize: crate::parser::Stacksize::_16,
        programsize: crate::parser::Programsize::Auto,
    };
    m.load(program);
    vassert!(m.bus().memory()[239] == 7, "C06.P.load.full-ram-image-loads");
}

/// KNOWN FINDING region: 241 bytes.
#[cfg_attr(kani, kani::proof)]
#[cfg_attr(kani, kani::unwind(245))]
pub(crate) fn c06_load_beyond_ram_known() {
    let mut m = mk_machine(RawMachine::new(), StepMode::Real);
    vcover!(true, "pre");
    let program = crate::compiler::ByteCode {
        lines: vec![(Line::Empty(None), vec![7u8; 241])],
        stacksize: crate::parser::Stacksize::_16,
        programsize: crate::parser::Programsize::Auto,
    };
    m.load(program);
    vassert!(m.state() == State::Running, "C06.P.load.returns-normally");
}

crate::replay_table!(verif_replay_c06m; c06_load_small_images, c06_load_full_ram, c06_load_beyond_ram_known,);
