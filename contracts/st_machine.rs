// Symbolic `Machine` (injected as `machine::verif_st_machine`).
use super::raw::verif_st_raw::*;
use super::*;
use crate::verif_shim::*;

pub(crate) fn any_step_mode() -> StepMode {
    if vany() {
        StepMode::Real
    } else {
        StepMode::Assembly
    }
}

pub(crate) fn any_machine() -> Machine {
    Machine {
        raw: any_raw(),
        step_mode: any_step_mode(),
    }
}

pub(crate) fn wf_machine(m: &Machine) -> bool {
    wf_raw(&m.raw)
}

pub(crate) fn machine_same(a: &Machine, b: &Machine) -> bool {
    let Machine { raw: a0, step_mode: a1 } = a;
    let Machine { raw: b0, step_mode: b1 } = b;
    raw_same(a0, b0) && a1 == b1
}

pub(crate) fn raw_of(m: &Machine) -> &RawMachine {
    &m.raw
}
pub(crate) fn raw_mut_of(m: &mut Machine) -> &mut RawMachine {
    &mut m.raw
}
pub(crate) fn mk_machine(raw: RawMachine, step_mode: StepMode) -> Machine {
    Machine { raw, step_mode }
}
