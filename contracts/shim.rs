// Shim shared by every injected contract module.  Injected into the staged copy of the crate as
// `crate::verif_shim` (one add-only line at the end of lib.rs).  No repository code in here.
//
// Under `cfg(kani)` the three primitives are Kani's: a symbolic value, an assumption, a named
// obligation.  Under `cfg(verif_replay)` (native build of the *same* staged crate with the
// repository's own toolchain) `vany` pops the concrete values that Kani's concrete playback printed
// for the failing obligation, `vassume` records whether the precondition held and `vassert` records
// the names of the clauses that are violated on the real code.
#![allow(dead_code)]

#[cfg(kani)]
mod imp {
    pub trait VAny: kani::Arbitrary {}
    impl<T: kani::Arbitrary> VAny for T {}
    #[inline(always)]
    pub fn vany<T: VAny>() -> T {
        kani::any()
    }
    #[inline(always)]
    pub fn vassume(c: bool) {
        kani::assume(c)
    }
}

#[cfg(all(not(kani), verif_replay))]
mod imp {
    use std::cell::RefCell;
    use std::collections::VecDeque;

    pub struct ReplayState {
        pub values: VecDeque<Vec<u8>>,
        pub underflow: bool,
        pub assume_failed: bool,
        pub violated: Vec<&'static str>,
        pub checked: usize,
    }
    thread_local! {
        pub static STATE: RefCell<ReplayState> = RefCell::new(ReplayState {
            values: VecDeque::new(), underflow: false, assume_failed: false, violated: vec![], checked: 0,
        });
    }
    pub fn load(values: Vec<Vec<u8>>) {
        STATE.with(|s| {
            let mut s = s.borrow_mut();
            s.values = values.into();
            s.underflow = false;
            s.assume_failed = false;
            s.violated.clear();
            s.checked = 0;
        })
    }
    fn pop(n: usize) -> Vec<u8> {
        STATE.with(|s| {
            let mut s = s.borrow_mut();
            match s.values.pop_front() {
                Some(v) if v.len() == n => v,
                _ => {
                    s.underflow = true;
                    vec![0; n]
                }
            }
        })
    }
    pub trait VAny: Sized {
        fn pop_value() -> Self;
    }
    impl VAny for u8 {
        fn pop_value() -> Self {
            pop(1)[0]
        }
    }
    impl VAny for bool {
        fn pop_value() -> Self {
            pop(1)[0] & 1 == 1
        }
    }
    impl VAny for u16 {
        fn pop_value() -> Self {
            let v = pop(2);
            u16::from_le_bytes([v[0], v[1]])
        }
    }
    impl VAny for u32 {
        fn pop_value() -> Self {
            let v = pop(4);
            u32::from_le_bytes([v[0], v[1], v[2], v[3]])
        }
    }
    impl VAny for f32 {
        fn pop_value() -> Self {
            let v = pop(4);
            f32::from_bits(u32::from_le_bytes([v[0], v[1], v[2], v[3]]))
        }
    }
    impl VAny for usize {
        fn pop_value() -> Self {
            let v = pop(8);
            let mut a = [0u8; 8];
            a.copy_from_slice(&v);
            u64::from_le_bytes(a) as usize
        }
    }
    impl<T: VAny + Copy + Default, const N: usize> VAny for [T; N] {
        fn pop_value() -> Self {
            let mut a = [T::default(); N];
            for x in a.iter_mut() {
                *x = T::pop_value();
            }
            a
        }
    }
    pub fn vany<T: VAny>() -> T {
        T::pop_value()
    }
    pub fn vassume(c: bool) {
        if !c {
            STATE.with(|s| s.borrow_mut().assume_failed = true);
        }
    }
    pub fn vassert_fn(c: bool, name: &'static str) {
        STATE.with(|s| {
            let mut s = s.borrow_mut();
            // obligations after a failed assumption are vacuous, exactly as under Kani
            if s.assume_failed {
                return;
            }
            s.checked += 1;
            if !c {
                s.violated.push(name);
            }
        })
    }
    pub fn vcover_fn(_c: bool, _name: &'static str) {}

    /// Run one harness natively on recorded values; prints a machine-readable verdict.
    pub fn run_replay(harness: fn(), values: Vec<Vec<u8>>) -> i32 {
        load(values);
        let r = std::panic::catch_unwind(harness);
        let (underflow, assume_failed, violated, checked) = STATE.with(|s| {
            let s = s.borrow();
            (s.underflow, s.assume_failed, s.violated.clone(), s.checked)
        });
        println!("REPLAY underflow={} assume_failed={} checked={}", underflow, assume_failed, checked);
        for v in &violated {
            println!("REPLAY-VIOLATED {}", v);
        }
        if let Err(e) = r {
            let msg = if let Some(s) = e.downcast_ref::<&str>() {
                s.to_string()
            } else if let Some(s) = e.downcast_ref::<String>() {
                s.clone()
            } else {
                "?".to_string()
            };
            if !assume_failed {
                println!("REPLAY-PANIC {}", msg.replace('\n', " "));
                return 1;
            }
        }
        if !violated.is_empty() {
            1
        } else {
            0
        }
    }
}

pub use imp::*;

/// `vassert!(cond, "clause")` — a named obligation.
#[cfg(kani)]
#[macro_export]
macro_rules! vassert {
    ($c:expr, $n:literal) => {
        kani::assert($c, $n)
    };
}
#[cfg(all(not(kani), verif_replay))]
#[macro_export]
macro_rules! vassert {
    ($c:expr, $n:literal) => {
        $crate::verif_shim::vassert_fn($c, $n)
    };
}
/// `vcover!(cond, "name")` — reachability witness (vacuity guard).
#[cfg(kani)]
#[macro_export]
macro_rules! vcover {
    ($c:expr, $n:literal) => {
        kani::cover!($c, $n)
    };
}
#[cfg(all(not(kani), verif_replay))]
#[macro_export]
macro_rules! vcover {
    ($c:expr, $n:literal) => {
        $crate::verif_shim::vcover_fn($c, $n)
    };
}

/// `replay_table!(entry_symbol; harness, harness, ...)` — the list of harnesses of a contract module
/// (the driver reads the same list) and, in the replay build, the native entry point.
#[macro_export]
macro_rules! replay_table {
    ($entry:ident; $($h:ident),* $(,)?) => {
        #[cfg(verif_replay)]
        #[no_mangle]
        pub fn $entry(name: &str, vals: Vec<Vec<u8>>) -> i32 {
            $( if name == stringify!($h) { return $crate::verif_shim::run_replay($h, vals); } )*
            3
        }
    };
}
