// C15 — clock-cycle cost = micro-steps + one wait per RAM access
// (injected as `machine::raw::verif_c15`).
//
//   E.wait      an edge with a memory wait pending clears it and changes NOTHING else (in particular
//               the micro-address does not advance);
//   E.waitgen   after an un-skipped edge a wait is pending  <=>  the executed word drives BUSEN or
//               BUSWR and the A-register address is <= 0xEF (never for 0xF0-0xFF);
//   C.path      for every instruction form the machine follows ONE micro-path for all data (pinned
//               path assertions), every word of it generates exactly the wait E.waitgen predicts, so
//               edges = words + RAM-access words; the number of words per form equals the committed
//               table (golden/cycles: constants below) — data-dependent only for JR, MUL, DIV.
use super::verif_c01::*;
use super::verif_isa::*;
use super::verif_st_raw::*;
use super::*;
use crate::verif_shim::*;
use crate::{vassert, vcover};

/// the word drives the bus
fn accesses_bus(w: Word) -> bool {
    w.contains(Word::BUSEN) || w.contains(Word::BUSWR)
}
/// A-side register select of word `w` under instruction register `ir` (documented: MRGAA3 selects
/// the opcode's low register field, otherwise MRGAA2..0)
fn a_select(w: Word, ir: u8) -> u8 {
    if w.contains(Word::MRGAA3) {
        ir & 3
    } else {
        ((w.contains(Word::MRGAA2) as u8) << 2) | ((w.contains(Word::MRGAA1) as u8) << 1) | (w.contains(Word::MRGAA0) as u8)
    }
}
/// Does the word the machine has just executed access RAM (address <= 0xEF)?
pub(crate) fn ram_access_just_executed(m: &RawMachine) -> bool {
    let w = cur_word(m);
    accesses_bus(w) && reg(m, a_select(w, ir(m))) <= 0xEF
}

#[cfg_attr(kani, kani::proof)]
pub(crate) fn c15_wait_consumed() {
    let mut m = any_raw();
    vassume(wf_raw(&m));
    vassume(m.state == State::Running && m.pending_wait_for_memory.is_some());
    vcover!(true, "pre");
    let mut exp = m.clone();
    exp.pending_wait_for_memory = None;
    m.trigger_clock_edge();
    vassert!(maddr(&m) == maddr(&exp), "C15.E.wait.micro-address-does-not-advance");
    vassert!(raw_same(&m, &exp), "C15.E.wait.only-consumes-the-wait");
}

#[cfg_attr(kani, kani::proof)]
pub(crate) fn c15_wait_generated() {
    let mut m = any_raw();
    vassume(wf_raw(&m));
    vassume(m.state == State::Running && m.pending_wait_for_memory.is_none());
    vcover!(true, "pre");
    m.trigger_clock_edge();
    vcover!(m.pending_wait_for_memory.is_some(), "post.wait-possible");
    vcover!(accesses_bus(cur_word(&m)) && m.pending_wait_for_memory.is_none(), "post.io-access-without-wait");
    vassert!(m.pending_wait_for_memory.is_some() == ram_access_just_executed(&m), "C15.E.waitgen.wait-iff-ram-access");
}

/// Path runner that also checks, word by word, that the generated wait is the predicted one, and
/// returns (words, edges, ram_access_words).
pub(crate) fn run_path_counting(m: &mut RawMachine, path: &[usize]) -> (usize, usize, usize) {
    let mut edges = consume_wait(m);
    let mut ram_words = 0;
    let mut i = 0;
    while i < path.len() {
        m.trigger_clock_edge();
        edges += 1;
        vassert!(m.state != State::Running || maddr(m) == path[i], "C15.C.path.same-micro-path-for-all-data");
        if m.state == State::Running {
            m.microprogram_ram.set_address(path[i]);
        }
        let predicted = ram_access_just_executed(m);
        vassert!(m.state != State::Running || m.pending_wait_for_memory.is_some() == predicted, "C15.C.path.wait-per-ram-access");
        i += 1;
        if i < path.len() {
            let w = consume_wait(m);
            edges += w;
            ram_words += w;
        }
    }
    (path.len(), edges, ram_words)
}

/// number of words on the path that drive the bus (BUSEN or BUSWR), read from the real control store
pub(crate) fn bus_words(path: &[usize]) -> usize {
    let mut n = 0;
    let mut i = 0;
    while i < path.len() {
        if accesses_bus(word_at(path[i])) {
            n += 1;
        }
        i += 1;
    }
    n
}

macro_rules! count_form {
    ($name:ident, $start:expr, $base:expr, $mask:expr, $path:ident, $golden:expr, $bus:expr) => {
        #[cfg_attr(kani, kani::proof)]
        #[cfg_attr(kani, kani::unwind(12))]
        #[cfg_attr(kani, kani::stub(crate::machine::board::Board::set_digital_output1, crate::machine::board::verif_st_board::stub_set_digital_output1))]
        #[cfg_attr(kani, kani::stub(crate::machine::board::Board::set_digital_output2, crate::machine::board::verif_st_board::stub_set_digital_output2))]
        #[cfg_attr(kani, kani::stub(crate::machine::board::Board::get_fan_period, crate::machine::board::verif_st_board::stub_get_fan_period))]
        pub(crate) fn $name() {
            let mut m = boundary_machine($start, $base, $mask);
            if $start == FETCH_WORD {
                vassume(at_boundary(&m));
            } else {
                vassume(at_second_fetch(&m));
            }
            let first_wait = m.pending_wait_for_memory.is_some() as usize;
            let (words, edges, ram_words) = run_path_counting(&mut m, paths::$path);
            vassume(m.state == State::Running);
            vcover!(true, "pre.reachable");
            vassert!(words == $golden, "C15.C.form.words-as-documented");
            vassert!(bus_words(paths::$path) == $bus, "C15.C.form.bus-access-words-as-documented");
            vassert!(edges == words + first_wait + ram_words, "C15.C.form.edges-are-words-plus-ram-accesses");
            let w = cur_word(&m);
            vassert!(is_fetch1(w) || is_fetch2(w), "C15.C.form.ends-at-a-fetch");
        }
    };
}

// documented words per form and, of these, the words that access the bus (transcribed once from the
// microprogram listing; the last word is the fetch of the next opcode)
count_form!(c15_nop, FETCH_WORD, 0x02, 0x00, c01_nop, 2, 1);
count_form!(c15_clr, FETCH_WORD, 0x04, 0x03, c01_clr, 2, 1);
count_form!(c15_ei, FETCH_WORD, 0x08, 0x00, c01_ei, 3, 1);
count_form!(c15_di, FETCH_WORD, 0x0C, 0x00, c01_di, 3, 1);
count_form!(c15_push, FETCH_WORD, 0x10, 0x03, c01_push, 4, 2);
count_form!(c15_pop, FETCH_WORD, 0x14, 0x03, c01_pop, 4, 2);
count_form!(c15_pushf, FETCH_WORD, 0x18, 0x00, c01_pushf, 4, 2);
count_form!(c15_popf, FETCH_WORD, 0x1C, 0x00, c01_popf, 3, 2);
count_form!(c15_call, FETCH_WORD, 0x28, 0x00, c01_call, 6, 3);
count_form!(c15_reti, FETCH_WORD, 0x2C, 0x00, c01_reti, 5, 3);
count_form!(c15_com, FETCH_WORD, 0x30, 0x03, c01_com, 2, 1);
count_form!(c15_neg, FETCH_WORD, 0x34, 0x03, c01_neg, 3, 1);
count_form!(c15_lsr, FETCH_WORD, 0x38, 0x03, c01_lsr, 2, 1);
count_form!(c15_asr, FETCH_WORD, 0x3C, 0x03, c01_asr, 2, 1);
count_form!(c15_rrc, FETCH_WORD, 0x40, 0x03, c01_rrc, 2, 1);
count_form!(c15_inc, FETCH_WORD, 0x44, 0x03, c01_inc, 2, 1);
count_form!(c15_tst, FETCH_WORD, 0x48, 0x03, c01_tst, 2, 1);
count_form!(c15_dec, FETCH_WORD, 0x50, 0x03, c01_dec, 2, 1);
// two-register ALU group: every source-register field (it selects one of four entry words)
count_form!(c15_add_s0, FETCH_WORD, 0x60, 0x03, c01_add_s0, 2, 1);
count_form!(c15_add_s1, FETCH_WORD, 0x64, 0x03, c01_add_s1, 2, 1);
count_form!(c15_add_s2, FETCH_WORD, 0x68, 0x03, c01_add_s2, 2, 1);
count_form!(c15_add_s3, FETCH_WORD, 0x6C, 0x03, c01_add_s3, 2, 1);
count_form!(c15_adc_s0, FETCH_WORD, 0x70, 0x03, c01_adc_s0, 2, 1);
count_form!(c15_adc_s1, FETCH_WORD, 0x74, 0x03, c01_adc_s1, 2, 1);
count_form!(c15_adc_s2, FETCH_WORD, 0x78, 0x03, c01_adc_s2, 2, 1);
count_form!(c15_adc_s3, FETCH_WORD, 0x7C, 0x03, c01_adc_s3, 2, 1);
count_form!(c15_sub_s0, FETCH_WORD, 0x80, 0x03, c01_sub_s0, 4, 1);
count_form!(c15_sub_s1, FETCH_WORD, 0x84, 0x03, c01_sub_s1, 4, 1);
count_form!(c15_sub_s2, FETCH_WORD, 0x88, 0x03, c01_sub_s2, 4, 1);
count_form!(c15_sub_s3, FETCH_WORD, 0x8C, 0x03, c01_sub_s3, 4, 1);
count_form!(c15_and_s0, FETCH_WORD, 0x90, 0x03, c01_and_s0, 7, 1);
count_form!(c15_and_s1, FETCH_WORD, 0x94, 0x03, c01_and_s1, 7, 1);
count_form!(c15_and_s2, FETCH_WORD, 0x98, 0x03, c01_and_s2, 7, 1);
count_form!(c15_and_s3, FETCH_WORD, 0x9C, 0x03, c01_and_s3, 7, 1);
count_form!(c15_or_s0, FETCH_WORD, 0xA0, 0x03, c01_or_s0, 5, 1);
count_form!(c15_or_s1, FETCH_WORD, 0xA4, 0x03, c01_or_s1, 5, 1);
count_form!(c15_or_s2, FETCH_WORD, 0xA8, 0x03, c01_or_s2, 5, 1);
count_form!(c15_or_s3, FETCH_WORD, 0xAC, 0x03, c01_or_s3, 5, 1);
count_form!(c15_xor_s0, FETCH_WORD, 0xD0, 0x03, c01_xor_s0, 8, 1);
count_form!(c15_xor_s1, FETCH_WORD, 0xD4, 0x03, c01_xor_s1, 8, 1);
count_form!(c15_xor_s2, FETCH_WORD, 0xD8, 0x03, c01_xor_s2, 8, 1);
count_form!(c15_xor_s3, FETCH_WORD, 0xDC, 0x03, c01_xor_s3, 8, 1);
count_form!(c15_src_reg, FETCH_WORD, 0xF0, 0x03, c01_src_reg, 2, 1);
count_form!(c15_src_ind, FETCH_WORD, 0xF4, 0x03, c01_src_ind, 2, 2);
count_form!(c15_src_inc, FETCH_WORD, 0xF8, 0x03, c01_src_inc, 3, 2);
count_form!(c15_src_dinc, FETCH_WORD, 0xFC, 0x03, c01_src_dinc, 4, 3);
count_form!(c15_mov_reg, SECOND_FETCH_WORD, 0x10, 0x03, c01_mov_reg, 2, 1);
count_form!(c15_mov_ind, SECOND_FETCH_WORD, 0x14, 0x03, c01_mov_ind, 2, 2);
count_form!(c15_mov_inc, SECOND_FETCH_WORD, 0x18, 0x03, c01_mov_inc, 3, 2);
count_form!(c15_mov_dinc, SECOND_FETCH_WORD, 0x1C, 0x03, c01_mov_dinc, 4, 3);
count_form!(c15_cmp_reg, SECOND_FETCH_WORD, 0x20, 0x03, c01_cmp_reg, 4, 1);
count_form!(c15_cmp_ind, SECOND_FETCH_WORD, 0x24, 0x03, c01_cmp_ind, 4, 2);
count_form!(c15_cmp_inc, SECOND_FETCH_WORD, 0x28, 0x03, c01_cmp_inc, 5, 2);
count_form!(c15_cmp_dinc, SECOND_FETCH_WORD, 0x2C, 0x03, c01_cmp_dinc, 6, 3);
count_form!(c15_bitt_reg, SECOND_FETCH_WORD, 0x30, 0x03, c01_bitt_reg, 5, 1);
count_form!(c15_bitt_ind, SECOND_FETCH_WORD, 0x34, 0x03, c01_bitt_ind, 5, 2);
count_form!(c15_bitt_inc, SECOND_FETCH_WORD, 0x38, 0x03, c01_bitt_inc, 6, 2);
count_form!(c15_bitt_dinc, SECOND_FETCH_WORD, 0x3C, 0x03, c01_bitt_dinc, 7, 3);
count_form!(c15_ldsp, SECOND_FETCH_WORD, 0x40, 0x00, c01_ldsp, 2, 1);
count_form!(c15_ldfr, SECOND_FETCH_WORD, 0x44, 0x00, c01_ldfr, 2, 1);
count_form!(c15_bits_reg, SECOND_FETCH_WORD, 0x50, 0x03, c01_bits_reg, 4, 1);
count_form!(c15_bits_ind, SECOND_FETCH_WORD, 0x54, 0x03, c01_bits_ind, 4, 3);
count_form!(c15_bits_inc, SECOND_FETCH_WORD, 0x58, 0x03, c01_bits_inc, 5, 3);
count_form!(c15_bits_dinc, SECOND_FETCH_WORD, 0x5C, 0x03, c01_bits_dinc, 6, 4);
count_form!(c15_bitc_reg, SECOND_FETCH_WORD, 0x60, 0x03, c01_bitc_reg, 5, 1);
count_form!(c15_bitc_ind, SECOND_FETCH_WORD, 0x64, 0x03, c01_bitc_ind, 5, 3);
count_form!(c15_bitc_inc, SECOND_FETCH_WORD, 0x68, 0x03, c01_bitc_inc, 6, 3);
count_form!(c15_bitc_dinc, SECOND_FETCH_WORD, 0x6C, 0x03, c01_bitc_dinc, 8, 5);

/// Data-dependent forms: JR (3 words either way, but different paths), MUL (per pass 3 words for a
/// 0 bit, 4 for a 1 bit), DIV (2 words per subtracting pass): the per-path word counts.
#[cfg_attr(kani, kani::proof)]
pub(crate) fn c15_data_dependent_counts() {
    vcover!(true, "pre");
    vassert!(paths::c01_jr_b0_taken.len() == 3 && paths::c01_jr_b0_not.len() == 3
        && paths::c01_jr_b1_taken.len() == 3 && paths::c01_jr_b1_not.len() == 3, "C15.C.jr.three-words-either-way");
    vassert!(paths::c01_jr_b0_taken[1] != paths::c01_jr_b0_not[1], "C15.C.jr.outcome-selects-the-path");
    vassert!(paths::c01_mul_entry.len() == 3, "C15.C.mul.entry-words");
    vassert!(paths::c01_mul_pass_0_more.len() == 3 && paths::c01_mul_pass_1_more.len() == 4, "C15.C.mul.pass-words-3-or-4");
    vassert!(paths::c01_mul_pass_0_last.len() == 2 && paths::c01_mul_pass_1_last.len() == 3 && paths::c01_mul_exit.len() == 1, "C15.C.mul.last-pass-and-exit-words");
    vassert!(paths::c01_div_entry.len() == 4 && paths::c01_div_pass_more.len() == 2 && paths::c01_div_pass_last.len() == 1
        && paths::c01_div_exit.len() == 1, "C15.C.div.words-per-pass");
    vassert!(paths::c01_div_by_zero.len() == 5, "C15.C.div.by-zero-words");
}

/// The MUL/DIV loop words never touch the bus, so their passes cost exactly their words.
#[cfg_attr(kani, kani::proof)]
#[cfg_attr(kani, kani::unwind(12))]
pub(crate) fn c15_loop_words_have_no_bus_access() {
    vcover!(true, "pre");
    let lists: [&[usize]; 8] = [&paths::c01_mul_entry[1..], paths::c01_mul_pass_0_more, paths::c01_mul_pass_1_more, paths::c01_mul_pass_0_last,
        paths::c01_mul_pass_1_last, &paths::c01_div_entry[1..], paths::c01_div_pass_more, paths::c01_div_pass_last];
    let mut i = 0;
    while i < lists.len() {
        let mut j = 0;
        while j < lists[i].len() {
            vassert!(!accesses_bus(word_at(lists[i][j])), "C15.C.loops.no-bus-access-inside-mul-div");
            j += 1;
        }
        i += 1;
    }
}

#[cfg_attr(kani, kani::proof)]
pub(crate) fn c15_canary() {
    let mut m = any_raw();
    vassume(wf_raw(&m));
    vassume(m.state == State::Running && m.pending_wait_for_memory.is_none());
    m.trigger_clock_edge();
    // wrong on purpose: claims every bus access generates a wait (true only for RAM addresses)
    vassert!(m.pending_wait_for_memory.is_some() == accesses_bus(cur_word(&m)), "CANARY");
}

crate::replay_table!(verif_replay_c15;
    c15_wait_consumed, c15_wait_generated, c15_data_dependent_counts, c15_loop_words_have_no_bus_access, c15_canary,
    c15_nop, c15_clr, c15_ei, c15_di, c15_push, c15_pop, c15_pushf, c15_popf, c15_call, c15_reti, c15_com, c15_neg, c15_lsr, c15_asr,
    c15_rrc, c15_inc, c15_tst, c15_dec, c15_add_s0, c15_add_s1, c15_add_s2, c15_add_s3, c15_adc_s0, c15_adc_s1, c15_adc_s2, c15_adc_s3, c15_sub_s0, c15_sub_s1, c15_sub_s2, c15_sub_s3, c15_and_s0, c15_and_s1, c15_and_s2, c15_and_s3, c15_or_s0, c15_or_s1, c15_or_s2, c15_or_s3, c15_xor_s0, c15_xor_s1, c15_xor_s2, c15_xor_s3,
    c15_src_reg, c15_src_ind, c15_src_inc, c15_src_dinc, c15_mov_reg, c15_mov_ind, c15_mov_inc, c15_mov_dinc,
    c15_cmp_reg, c15_cmp_ind, c15_cmp_inc, c15_cmp_dinc, c15_bitt_reg, c15_bitt_ind, c15_bitt_inc, c15_bitt_dinc, c15_ldsp, c15_ldfr,
    c15_bits_reg, c15_bits_ind, c15_bits_inc, c15_bits_dinc, c15_bitc_reg, c15_bitc_ind, c15_bitc_inc, c15_bitc_dinc,
);
