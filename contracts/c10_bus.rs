// C10 — contracts of `Bus::write`, `Bus::read`, `Bus::input_fc..ff` and the RAM frame of the other
// bus mutators (injected as `machine::bus::verif_c10`).
//
// Pre-state: a fully symbolic `Bus` (all 240 RAM bytes, every register, timer, whole board incl.
// arbitrary f32 bit patterns); address and byte symbolic.  Every clause is a whole-state statement:
// the post-state is compared with "old state with exactly the documented field replaced".
use super::verif_st_bus::*;
use super::*;
use crate::machine::board::verif_st_board::*;
use crate::verif_shim::*;
use crate::{vassert, vcover};

/// Everything except the board is equal.
fn same_outside_board(a: &Bus, b: &Bus) -> bool {
    let mut a2 = a.clone();
    a2.board = b.board.clone();
    bus_same(&a2, b)
}

/// W.ram / W.io / W.in : postcondition + frame of `Bus::write` for one address class per harness.
#[cfg_attr(kani, kani::proof)]
pub(crate) fn c10_write_ram() {
    let mut bus = any_bus();
    let old = bus.clone();
    let addr: u8 = vany();
    let byte: u8 = vany();
    vassume(addr <= 0xEF);
    vcover!(addr == 0xEF, "pre.top-of-ram");
    bus.write(addr, byte);
    vassert!(bus.ram.0[addr as usize] == byte, "C10.W.ram.stored");
    let j: u8 = vany();
    vassume(j <= 0xEF && j != addr);
    vassert!(bus.ram.0[j as usize] == old.ram.0[j as usize], "C10.W.ram.other-cells-unchanged");
    let mut exp = old.clone();
    exp.ram.0[addr as usize] = byte;
    vassert!(bus_same(&bus, &exp), "C10.W.ram.frame");
    // and a read of that address returns the byte, reads of other RAM cells return the old content
    vassert!(bus.read(addr) == byte, "C10.W.ram.read-back");
    vassert!(bus.read(j) == old.read(j), "C10.W.ram.no-alias");
}

#[cfg_attr(kani, kani::proof)]
pub(crate) fn c10_write_io() {
    let mut bus = any_bus();
    let old = bus.clone();
    let addr: u8 = vany();
    let byte: u8 = vany();
    vassume(addr >= 0xF0);
    vcover!(addr == 0xF9, "pre.f9");
    vcover!(addr == 0xFF, "pre.ff");
    bus.write(addr, byte);
    // no write to 0xF0-0xFF ever changes RAM
    vassert!(bus.ram.0 == old.ram.0, "C10.W.io.ram-untouched");
    // no write changes the input registers (reads of FC-FF are unaffected by writes)
    vassert!(bus.input_reg == old.input_reg, "C10.W.in.input-registers-untouched");
    // output registers change only by writes to FE / FF
    let mut out = old.output_reg;
    if addr == 0xFE {
        out[0] = byte;
    }
    if addr == 0xFF {
        out[1] = byte;
    }
    vassert!(bus.output_reg == out, "C10.W.io.output-registers");
    // F9 sets the interrupt-enable mask (MICR, 6 bits), never the status register
    vassert!(bus.misr == old.misr, "C10.W.io.misr-untouched");
    if addr == 0xF9 {
        vassert!(bus.micr.bits() == byte & 0x3F, "C10.W.io.f9-sets-micr");
        // ... and the mask is what the enable accessors report: bit 0 key edge, bit 1 timer edge,
        // each independently of the other bits
        vassert!(bus.is_key_edge_int_enabled() == (byte & 0x01 != 0), "C10.W.io.f9-mask-bit0-is-key-edge-enable");
        vassert!(bus.is_timer_edge_int_enabled() == (byte & 0x02 != 0), "C10.W.io.f9-mask-bit1-is-timer-edge-enable");
    } else {
        vassert!(bus.micr == old.micr, "C10.W.io.micr-only-by-f9");
    }
    // board only through F0-F3
    if addr >= 0xF4 {
        vassert!(board_same(&bus.board, &old.board), "C10.W.io.board-only-by-f0-f3");
    }
    if addr == 0xF0 {
        vassert!(*bus.board.digital_output1() == byte, "C10.W.io.f0-reaches-port1");
        vassert!(*bus.board.digital_output2() == *old.board.digital_output2(), "C10.W.io.f0-leaves-port2");
    }
    if addr == 0xF1 {
        vassert!(*bus.board.digital_output2() == byte, "C10.W.io.f1-reaches-port2");
        vassert!(*bus.board.digital_output1() == *old.board.digital_output1(), "C10.W.io.f1-leaves-port1");
    }
    // whole-state frame per address
    let mut exp = old.clone();
    match addr {
        0xF0..=0xF3 => exp.board = bus.board.clone(),
        0xF4..=0xF8 => {}
        0xF9 => exp.micr = MICR::from_bits_truncate(byte),
        0xFA => exp.uart_send = byte,
        0xFB => exp.ucr = UCR::from_bits_truncate(byte),
        0xFC | 0xFD => exp.int_timer = bus.int_timer.clone(),
        0xFE => exp.output_reg[0] = byte,
        _ => exp.output_reg[1] = byte,
    }
    vassert!(bus_same(&bus, &exp), "C10.W.io.frame");
}

/// R.val / R.pure: value and purity of `Bus::read` for every address.
#[cfg_attr(kani, kani::proof)]
pub(crate) fn c10_read() {
    let bus = any_bus();
    let old = bus.clone();
    let addr: u8 = vany();
    vcover!(addr == 0xF9, "pre.f9");
    let v = bus.read(addr);
    let exp = match addr {
        0x00..=0xEF => old.ram.0[addr as usize],
        0xF0 => *old.board.digital_input1(),
        0xF1 => old.board.dasr().bits(),
        0xF2 => old.board.get_fan_period(),
        0xF3 => old.board.daisr().bits(),
        0xF4..=0xF8 => 0,
        0xF9 => old.misr.bits(),
        0xFA => old.uart_recv,
        0xFB => old.usr.bits(),
        _ => old.input_reg[(addr - 0xFC) as usize],
    };
    vassert!(v == exp, "C10.R.value");
    vassert!(bus_same(&bus, &old), "C10.R.pure");
}

/// I.set: each input setter sets exactly its register.
#[cfg_attr(kani, kani::proof)]
pub(crate) fn c10_input() {
    let mut bus = any_bus();
    let old = bus.clone();
    let k: u8 = vany();
    let byte: u8 = vany();
    vassume(k < 4);
    vcover!(k == 3, "pre.ff");
    match k {
        0 => bus.input_fc(byte),
        1 => bus.input_fd(byte),
        2 => bus.input_fe(byte),
        _ => bus.input_ff(byte),
    }
    let mut exp = old.clone();
    exp.input_reg[k as usize] = byte;
    vassert!(bus_same(&bus, &exp), "C10.I.set.frame");
    vassert!(bus.read(0xFC + k) == byte, "C10.I.set.read-back");
}

/// RAM frame of the remaining mutators of `Bus` (resets; key-interrupt bookkeeping via misr_mut is
/// a plain field reference): together with W.ram this makes "until it is overwritten" inductive.
#[cfg_attr(kani, kani::proof)]
pub(crate) fn c10_ram_frame_resets() {
    let mut bus = any_bus();
    let old = bus.clone();
    let which: bool = vany();
    vcover!(which, "pre.master");
    if which {
        bus.master_reset()
    } else {
        bus.cpu_reset()
    }
    vassert!(bus.ram.0 == old.ram.0, "C10.F.resets-leave-ram");
    let _ = bus.get_level_interrupt();
    let _ = bus.take_edge_interrupt();
    vassert!(bus.ram.0 == old.ram.0, "C10.F.interrupt-polls-leave-ram");
}

/// All ordered pairs of write addresses: the second write never disturbs what the first stored
/// (other than by overwriting the same cell).
#[cfg_attr(kani, kani::proof)]
pub(crate) fn c10_pair() {
    let mut bus = any_bus();
    let old = bus.clone();
    let (a1, b1, a2, b2): (u8, u8, u8, u8) = (vany(), vany(), vany(), vany());
    vcover!(a1 <= 0xEF && a2 >= 0xF0, "pre.ram-then-io");
    vcover!(a1 == a2, "pre.same");
    bus.write(a1, b1);
    bus.write(a2, b2);
    let r: u8 = vany();
    vassume(r <= 0xEF);
    let exp = if r == a2 {
        b2
    } else if r == a1 {
        b1
    } else {
        old.ram.0[r as usize]
    };
    vassert!(bus.read(r) == exp, "C10.P.ram-last-write-wins");
    let e0 = if a2 == 0xFE { b2 } else if a1 == 0xFE { b1 } else { old.output_reg[0] };
    let e1 = if a2 == 0xFF { b2 } else if a1 == 0xFF { b1 } else { old.output_reg[1] };
    vassert!(bus.output_fe() == e0 && bus.output_ff() == e1, "C10.P.outputs");
    vassert!(bus.input_reg == old.input_reg, "C10.P.inputs");
}

#[cfg_attr(kani, kani::proof)]
pub(crate) fn c10_canary() {
    let mut bus = any_bus();
    let old = bus.clone();
    let addr: u8 = vany();
    let byte: u8 = vany();
    bus.write(addr, byte);
    // wrong on purpose: claims RAM cell 0x10 never changes
    vassert!(bus.ram.0[0x10] == old.ram.0[0x10], "CANARY");
}

crate::replay_table!(verif_replay_c10;
    c10_write_ram, c10_write_io, c10_read, c10_input, c10_ram_frame_resets, c10_pair, c10_canary,
);
