// C05 — supervision and halt states: contracts on `RawMachine::trigger_clock_edge`,
// `is_stackpointer_valid`, `is_program_counter_valid`, `trigger_key_continue`,
// `trigger_key_edge_interrupt` (injected as `machine::raw::verif_c05`).
use super::verif_st_raw::*;
use super::*;
use crate::verif_shim::*;
use crate::{vassert, vcover};

/// The statement's stack rule: SP below 0xF0 and not inside the forbidden band of the configured
/// stack size (band constants characterised from the pinned tree: 0xD1-0xDE / 0xC1-0xCE / 0xB1-0xBE /
/// 0xA1-0xAE for 16 / 32 / 48 / 64 bytes, none for 0).
pub(crate) fn sp_ok(sp: u8, ss: Stacksize) -> bool {
    let band = |lo: u8, hi: u8| sp >= lo && sp <= hi;
    sp < 0xF0
        && match ss {
            Stacksize::_0 => true,
            Stacksize::_16 => !band(0xD1, 0xDE),
            Stacksize::_32 => !band(0xC1, 0xCE),
            Stacksize::_48 => !band(0xB1, 0xBE),
            Stacksize::_64 => !band(0xA1, 0xAE),
            Stacksize::NotSet => true,
        }
}

/// The statement's PC rule: PC never exceeds the limit (no limit set = "no program": PC stays 0).
pub(crate) fn pc_ok(pc: u8, ps: Programsize) -> bool {
    match ps {
        Programsize::Size(n) => pc <= n,
        _ => pc == 0,
    }
}

pub(crate) fn limits_ok(m: &RawMachine) -> bool {
    sp_ok(reg(m, 5), m.stacksize) && pc_ok(reg(m, 3), m.programsize)
}

/// Inductive invariant behind "while Running the limits hold": it must also hold while regularly
/// stopped, because the continue key turns Stopped into Running without touching a register.
pub(crate) fn inv_c05(m: &RawMachine) -> bool {
    m.state == State::ErrorStopped || limits_ok(m)
}

/// The word executed before this edge loads the instruction register from the bus.
pub(crate) fn loads_ir(w: Word) -> bool {
    w.contains(Word::MAC0) && w.contains(Word::MAC2) && !w.contains(Word::MAC1)
}

/// P.sp / P.pc: the two predicates equal the rule for every SP/PC and every limit.
#[cfg_attr(kani, kani::proof)]
pub(crate) fn c05_predicates() {
    let m = any_raw();
    vassume(wf_raw(&m));
    vcover!(reg(&m, 5) == 0xD1, "pre.band-edge");
    vassert!(m.is_stackpointer_valid() == sp_ok(reg(&m, 5), m.stacksize), "C05.P.stackpointer-rule");
    vassert!(m.is_program_counter_valid() == pc_ok(reg(&m, 3), m.programsize), "C05.P.program-counter-rule");
}

/// E.super (exactness) + S.inv (invariant) for one edge from a Running, non-waiting state.
#[cfg_attr(kani, kani::proof)]
pub(crate) fn c05_edge_running() {
    let mut m = any_raw();
    vassume(wf_raw(&m));
    vassume(m.state == State::Running && m.pending_wait_for_memory.is_none());
    let old = m.clone();
    let commit = old.pending_register_write.is_some();
    let fetch = loads_ir(cur_word(&old));
    let byte = old.last_bus_read;
    vcover!(commit && fetch && byte == 1, "pre.commit-and-stop-fetch");
    vcover!(!commit && fetch && byte == 0, "pre.zero-fetch");
    m.trigger_clock_edge();
    // registers after the commit of this edge are the registers of the post-state
    let broke_rule = commit && !limits_ok(&m);
    let error = broke_rule || (fetch && byte == 0x00);
    let stop = fetch && byte == 0x01 && !error;
    vassert!((m.state == State::ErrorStopped) == error, "C05.E.super.error-stop-exactly-when");
    vassert!((m.state == State::Stopped) == stop, "C05.E.super.regular-stop-exactly-when");
    vassert!((m.state == State::Running) == (!error && !stop), "C05.E.super.running-otherwise");
    // limits are configuration: an edge never changes them
    vassert!(m.stacksize == old.stacksize && m.programsize == old.programsize, "C05.E.limits-unchanged");
    // only a commit changes SP / PC
    if !commit {
        vassert!(reg(&m, 5) == reg(&old, 5) && reg(&m, 3) == reg(&old, 3), "C05.E.sp-pc-change-only-by-commit");
    }
}

#[cfg_attr(kani, kani::proof)]
pub(crate) fn c05_invariant_edge() {
    let mut m = any_raw();
    vassume(wf_raw(&m));
    vassume(inv_c05(&m));
    vcover!(m.state == State::Running && m.pending_register_write.is_some(), "pre.commit");
    m.trigger_clock_edge();
    vassert!(inv_c05(&m), "C05.S.inv.edge");
    if m.state == State::Running {
        vassert!(sp_ok(reg(&m, 5), m.stacksize), "C05.S.running-implies-sp-rule");
        vassert!(pc_ok(reg(&m, 3), m.programsize), "C05.S.running-implies-pc-rule");
    }
}

/// E.wait: a Running machine with a pending memory wait only consumes the wait (state stays).
#[cfg_attr(kani, kani::proof)]
pub(crate) fn c05_edge_waiting() {
    let mut m = any_raw();
    vassume(wf_raw(&m));
    vassume(m.state == State::Running && m.pending_wait_for_memory.is_some());
    vcover!(true, "pre");
    let mut exp = m.clone();
    exp.pending_wait_for_memory = None;
    m.trigger_clock_edge();
    vassert!(raw_same(&m, &exp), "C05.E.wait.only-consumes-the-wait");
}

/// E.halt: once stopped or error-stopped, a clock edge changes nothing at all.
#[cfg_attr(kani, kani::proof)]
pub(crate) fn c05_halt_absorbing() {
    let mut m = any_raw();
    vassume(wf_raw(&m));
    vassume(m.state != State::Running);
    vcover!(m.state == State::Stopped && m.pending_wait_for_memory.is_some(), "pre.stopped-with-wait");
    let old = m.clone();
    m.trigger_clock_edge();
    vassert!(raw_same(&m, &old), "C05.E.halt.edge-changes-nothing");
}

/// K.cont / K.int: the continue key leaves only a regular stop; the interrupt key never changes
/// the run state; both preserve the invariant.
#[cfg_attr(kani, kani::proof)]
pub(crate) fn c05_keys() {
    let mut m = any_raw();
    vassume(wf_raw(&m));
    let old = m.clone();
    vcover!(m.state == State::Stopped, "pre.stopped");
    m.trigger_key_continue();
    let mut exp = old.clone();
    if old.state == State::Stopped {
        exp.state = State::Running;
    }
    vassert!(raw_same(&m, &exp), "C05.K.continue.only-stopped-to-running");
    let mut m2 = old.clone();
    m2.trigger_key_edge_interrupt();
    vassert!(m2.state == old.state, "C05.K.interrupt-key-leaves-run-state");
    vassert!(m2.register == old.register && m2.stacksize == old.stacksize && m2.programsize == old.programsize,
        "C05.K.interrupt-key-leaves-registers-and-limits");
    if inv_c05(&old) {
        vassert!(inv_c05(&m) && inv_c05(&m2), "C05.S.inv.keys");
    }
}

/// Resets establish the invariant from any state, for every limit setting.
#[cfg_attr(kani, kani::proof)]
pub(crate) fn c05_resets_establish() {
    let mut m = any_raw();
    vassume(wf_raw(&m));
    let master: bool = vany();
    vcover!(master, "pre.master");
    if master {
        m.master_reset()
    } else {
        m.cpu_reset()
    }
    vassert!(m.state == State::Running, "C05.R.reset-leaves-halt");
    vassert!(inv_c05(&m) && limits_ok(&m), "C05.S.inv.reset");
    // changing a limit right after a reset (the only call site: Machine::load) keeps the invariant
    let ss = any_stacksize();
    vassume(ss != Stacksize::NotSet);
    m.set_stacksize(ss);
    m.set_programsize(any_programsize());
    vassert!(inv_c05(&m) && limits_ok(&m), "C05.S.inv.limits-after-reset");
    vassert!(inv_c05(&RawMachine::new()), "C05.S.inv.power-on");
}

#[cfg_attr(kani, kani::proof)]
pub(crate) fn c05_canary() {
    let mut m = any_raw();
    vassume(wf_raw(&m));
    vassume(m.state == State::Running && m.pending_wait_for_memory.is_none());
    m.trigger_clock_edge();
    // wrong on purpose: an edge from Running can error-stop
    vassert!(m.state != State::ErrorStopped, "CANARY");
}

crate::replay_table!(verif_replay_c05;
    c05_predicates, c05_edge_running, c05_invariant_edge, c05_edge_waiting, c05_halt_absorbing,
    c05_keys, c05_resets_establish, c05_canary,
);
