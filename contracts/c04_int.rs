// C04 — key interrupts: taken once, at an instruction boundary, transparently
// (injected as `machine::raw::verif_c04`).
//
//   K.trig   `trigger_key_edge_interrupt`: the flip-flop is set iff the key-edge enable bit (MICR
//            bit 0) is set; nothing but the flip-flop and the status register changes;
//   E.int    clause of the clock edge: the flip-flop changes only at a sampling word (the
//            end-of-instruction branch MAC1&MAC0&NA0); there, with IE set and the flip-flop set, the
//            next word is an "int:" word and the flip-flop is cleared (taken exactly once); with the
//            flip-flop clear the next word is the instruction fetch;
//   N.sample "int:" words are entered from sampling words only, whose alternative successor is the
//            fetch of the next instruction: the routine is entered BETWEEN two instructions;
//   I.entry  triple of the entry routine: FR pushed, address of the next instruction pushed,
//            interrupts disabled, PC = 2, R0-R2 untouched, boundary re-established;
//   I.reti   the RETI triple (C01.RETI.*, re-run here).
// The case "flip-flop set, IE clear at a sampling word" is left unconstrained: the statement is silent.
use super::verif_c01::*;
use super::verif_c09::*;
use super::verif_isa::*;
use super::verif_st_raw::*;
use super::*;
use crate::machine::bus::verif_st_bus::*;
use crate::verif_shim::*;
use crate::{vassert, vcover};

pub(crate) fn is_sampling(w: Word) -> bool {
    w.contains(Word::MAC1) && w.contains(Word::MAC0) && w.contains(Word::NA0) && !w.contains(Word::MAC2) && !w.contains(Word::MAC3)
}
/// "int:" words: the IR-resetting words of the routines and word 0x007 of routine 0
pub(crate) fn is_int_word(a: usize) -> bool {
    let w = word_at(a);
    (w.contains(Word::MAC1) && w.contains(Word::MAC2) && !w.contains(Word::MAC0) && !w.contains(Word::MAC3)) || a == 0x007
}

#[cfg_attr(kani, kani::proof)]
pub(crate) fn c04_key_trigger() {
    let mut m = any_raw();
    vassume(wf_raw(&m));
    let old = m.clone();
    vcover!(micr_bits(&old.bus) & 1 == 0 && old.pending_edge_interrupt.is_none(), "pre.disabled");
    m.trigger_key_edge_interrupt();
    let enabled = micr_bits(&old.bus) & 1 != 0;
    if enabled {
        vassert!(m.pending_edge_interrupt.is_some(), "C04.K.trig.enabled-sets-flip-flop");
    } else {
        vassert!(m.pending_edge_interrupt == old.pending_edge_interrupt, "C04.K.trig.disabled-never-sets-flip-flop");
    }
    // frame: only the flip-flop and the status register may differ
    let mut exp = old.clone();
    exp.pending_edge_interrupt = m.pending_edge_interrupt.clone();
    set_misr_bits(&mut exp.bus, misr_bits(&m.bus));
    vassert!(raw_same(&m, &exp), "C04.K.trig.frame");
    // idempotent: a second press changes nothing more
    let once = m.clone();
    m.trigger_key_edge_interrupt();
    vassert!(raw_same(&m, &once), "C04.K.trig.idempotent");
}

#[cfg_attr(kani, kani::proof)]
pub(crate) fn c04_edge_interrupt_clause() {
    let mut m = any_raw();
    vassume(wf_raw(&m));
    vassume(m.state == State::Running && m.pending_wait_for_memory.is_none());
    // certified control states only (C09): the states the machine can be in while executing programs
    vassume(in_cert(maddr(&m), ir(&m)));
    let old = m.clone();
    let w = cur_word(&old);
    let iff = old.pending_edge_interrupt.is_some();
    vcover!(is_sampling(w) && iff, "pre.sampling-with-pending");
    vcover!(!is_sampling(w) && iff, "pre.pending-mid-instruction");
    m.trigger_clock_edge();
    let ie = reg(&m, 4) & 0x08 != 0; // IE after this edge's commits: what the branch saw
    if !is_sampling(w) {
        vassert!(m.pending_edge_interrupt.is_some() == iff, "C04.E.int.flip-flop-kept-until-sampled");
        vassert!(!is_int_word(maddr(&m)), "C04.N.sample.int-words-entered-from-sampling-words-only");
    } else if iff && ie {
        vassert!(is_int_word(maddr(&m)), "C04.E.int.taken-enters-int-word");
        vassert!(m.pending_edge_interrupt.is_none(), "C04.E.int.taken-clears-flip-flop");
    } else if !iff {
        vassert!(is_fetch1(word_at(maddr(&m))), "C04.E.int.not-pending-continues-with-next-fetch");
        vassert!(m.pending_edge_interrupt.is_none(), "C04.E.int.nothing-invented");
    } else {
        // pending but IE clear: not entered (what happens to the flip-flop is not stated)
        vassert!(is_fetch1(word_at(maddr(&m))), "C04.E.int.masked-continues-with-next-fetch");
    }
    if is_int_word(maddr(&m)) {
        vassert!(is_sampling(w) && iff && ie, "C04.E.int.entered-only-when-pending-and-enabled");
    }
}

/// Wait edges leave the flip-flop alone (key pressed during a memory wait).
#[cfg_attr(kani, kani::proof)]
pub(crate) fn c04_wait_edge_keeps_flip_flop() {
    let mut m = any_raw();
    vassume(wf_raw(&m));
    vassume(m.state == State::Running && m.pending_wait_for_memory.is_some());
    let iff = m.pending_edge_interrupt.is_some();
    vcover!(iff, "pre.pending");
    m.trigger_clock_edge();
    vassert!(m.pending_edge_interrupt.is_some() == iff, "C04.E.int.wait-edge-keeps-flip-flop");
}

/// I.entry: from an "int:" word (WLOG 0x029; all IR-resetting int words are proved identical, word
/// 0x007 has its own triple) through the entry routine to the first fetch of the handler.
fn entry_triple(start: usize, path: &[usize]) {
    let mut m = any_raw();
    m.microprogram_ram.set_address(start);
    m.pending_edge_interrupt = None;
    m.pending_level_interrupt = None;
    m.pending_register_write = None;
    m.pending_flag_write = None;
    m.pending_wait_for_memory = None;
    m.state = State::Running;
    vassume(wf_raw(&m));
    if start == 0x007 {
        vassume(ir(&m) >> 4 == 0);
    }
    let old = m.clone();
    // view when the interrupt is taken: PC is the address of the next instruction
    let mut exp = View { r: [reg(&m, 0), reg(&m, 1), reg(&m, 2), reg(&m, 3), reg(&m, 4), reg(&m, 5)], bus: m.bus.clone() };
    let _ = run_path(&mut m, path);
    vassume(m.state == State::Running);
    vcover!(true, "pre.reachable");
    // push FR, push PC (address of the next instruction), disable interrupts, jump to 2
    let fr = exp.r[FR];
    let pc = exp.r[PC];
    exp.r[SP] = exp.r[SP].wrapping_sub(1);
    exp.wr(exp.r[SP], fr);
    exp.r[SP] = exp.r[SP].wrapping_sub(1);
    exp.wr(exp.r[SP], pc);
    exp.r[FR] &= 0x07;
    exp.r[PC] = 2;
    exp.r[PC] = exp.r[PC].wrapping_add(1); // the handler's first opcode has been fetched
    vassert!(at_boundary(&m), "C04.I.entry.boundary");
    vassert!(reg(&m, 4) & 0x08 == 0, "C04.I.entry.interrupts-disabled");
    vassert!(view_matches(&m, &exp), "C04.I.entry.view-fr-and-pc-pushed-pc-is-2");
    vassert!(outside_view_unchanged(&old, &m), "C04.I.entry.frame");
}

#[cfg_attr(kani, kani::proof)]
#[cfg_attr(kani, kani::unwind(12))]
#[cfg_attr(kani, kani::stub(crate::machine::board::Board::set_digital_output1, crate::machine::board::verif_st_board::stub_set_digital_output1))]
#[cfg_attr(kani, kani::stub(crate::machine::board::Board::set_digital_output2, crate::machine::board::verif_st_board::stub_set_digital_output2))]
#[cfg_attr(kani, kani::stub(crate::machine::board::Board::get_fan_period, crate::machine::board::verif_st_board::stub_get_fan_period))]
pub(crate) fn c04_entry_from_routine() {
    entry_triple(0x029, paths::c04_entry);
}

#[cfg_attr(kani, kani::proof)]
#[cfg_attr(kani, kani::unwind(12))]
#[cfg_attr(kani, kani::stub(crate::machine::board::Board::set_digital_output1, crate::machine::board::verif_st_board::stub_set_digital_output1))]
#[cfg_attr(kani, kani::stub(crate::machine::board::Board::set_digital_output2, crate::machine::board::verif_st_board::stub_set_digital_output2))]
#[cfg_attr(kani, kani::stub(crate::machine::board::Board::get_fan_period, crate::machine::board::verif_st_board::stub_get_fan_period))]
pub(crate) fn c04_entry_from_routine0() {
    entry_triple(0x007, paths::c04_entry);
}

/// All IR-resetting "int:" words are one and the same control word.
#[cfg_attr(kani, kani::proof)]
#[cfg_attr(kani, kani::unwind(514))]
pub(crate) fn c04_int_words_identical() {
    vcover!(true, "pre");
    let mut a = 0;
    let mut n = 0;
    while a < 512 {
        if is_int_word(a) && a != 0x007 {
            n += 1;
            vassert!(word_at(a).bits() == word_at(0x029).bits(), "C04.W.int-words-identical");
        }
        a += 1;
    }
    vassert!(n >= 10 && is_int_word(0x029), "C04.W.anchor-is-int-word");
}

#[cfg_attr(kani, kani::proof)]
pub(crate) fn c04_canary() {
    let mut m = any_raw();
    vassume(wf_raw(&m));
    vassume(m.state == State::Running && m.pending_wait_for_memory.is_none());
    vassume(in_cert(maddr(&m), ir(&m)));
    let iff = m.pending_edge_interrupt.is_some();
    m.trigger_clock_edge();
    // wrong on purpose: the flip-flop is never cleared
    vassert!(m.pending_edge_interrupt.is_some() == iff, "CANARY");
}

#[cfg(verif_replay)]
pub(crate) fn gen_c04_paths() {
    // interrupt entry recorded on a concrete machine through the real clock edge
    let mut m = RawMachine::new();
    m.set_stacksize(Stacksize::_0);
    m.set_programsize(Programsize::Size(255));
    m.microprogram_ram.set_address(0x029);
    m.register.set(RegisterNumber::R5, 0x80);
    let mut out = vec![];
    let mut guard = 0;
    loop {
        if m.pending_wait_for_memory.is_some() {
            m.trigger_clock_edge();
        }
        m.trigger_clock_edge();
        out.push(maddr(&m));
        guard += 1;
        if is_fetch1(cur_word(&m)) || guard > 32 {
            break;
        }
    }
    println!("P c04_entry {}", out.iter().map(|a| a.to_string()).collect::<Vec<_>>().join(" "));
}
#[cfg(not(verif_replay))]
pub(crate) fn gen_c04_paths() {}

crate::replay_table!(verif_replay_c04;
    c04_key_trigger, c04_edge_interrupt_clause, c04_wait_edge_keeps_flip_flop, c04_entry_from_routine, c04_entry_from_routine0,
    c04_int_words_identical, c04_canary, gen_c04_paths,
);
