// C11 — `Machine::trigger_key_clock` (injected as `machine::verif_c11`).
//
//   T.real  StepMode::Real: the call is exactly one `trigger_clock_edge`;
//   T.loop  StepMode::Assembly, caller checked against the callee's contract (abstract edge): edges
//           are issued exactly until the first edge after which the machine is halted, or is at an
//           instruction boundary having been inside an instruction during this step, or which left
//           the machine unchanged while inside an instruction (micro-sequencer stuck on an unknown
//           opcode: there is no next boundary, the step must still return) — never one more, never
//           one fewer; none at all from a halted state.  BOUNDED in the number of abstract edges (K = 6).
//   T.term  termination: for defined opcodes the rank/variants of C09; for the stuck set: an edge
//           from a stuck state reaches a fixpoint after one edge (c11_stuck_is_fixpoint), so the
//           "unchanged" rule of T.loop fires; and the real loop returns from a stuck state
//           (c11_stuck_step_returns, real code, unwinding assertion = termination bound).
use super::raw::verif_c09::*;
use super::raw::verif_c11r::*;
use super::raw::verif_st_raw::*;
use super::verif_st_machine::*;
use super::*;
use crate::verif_shim::*;
use crate::{vassert, vcover};

#[cfg_attr(kani, kani::proof)]
pub(crate) fn c11_real_mode_is_one_edge() {
    let mut m = mk_machine(any_raw(), StepMode::Real);
    vassume(wf_machine(&m));
    vcover!(m.state() == State::Running, "pre.running");
    let mut r = raw_of(&m).clone();
    m.trigger_key_clock();
    r.trigger_clock_edge();
    vassert!(raw_same(raw_of(&m), &r), "C11.T.real.one-step-is-one-edge");
    vassert!(m.step_mode() == StepMode::Real, "C11.T.real.mode-kept");
}

#[cfg(kani)]
#[kani::proof]
#[kani::unwind(9)]
#[kani::stub(crate::machine::raw::RawMachine::trigger_clock_edge, crate::machine::raw::verif_c11r::abstract_edge)]
pub(crate) fn c11_loop_logic() {
    let done0: bool = kani::any();
    let st0 = any_state();
    let mut m = mk_machine(RawMachine::new(), StepMode::Assembly);
    set_control(raw_mut_of(&mut m), done0, st0);
    unsafe {
        EDGES = 0;
        DONE[0] = done0;
        RUNNING[0] = st0 == State::Running;
        CHANGED[0] = true;
    }
    m.trigger_key_clock();
    let n = unsafe { EDGES };
    kani::cover!(n == 3, "pre.three-edges");
    kani::cover!(n == 0, "pre.no-edge");
    // reference: the step ends after edge i (i >= 1) iff ...
    let ends_after = |i: usize| -> bool {
        unsafe {
            let mut inside_seen = false; // some state 0..i-1 of this step was inside an instruction
            let mut j = 0;
            while j < i {
                if !DONE[j] {
                    inside_seen = true;
                }
                j += 1;
            }
            !RUNNING[i] || (DONE[i] && inside_seen) || (!DONE[i] && !CHANGED[i] && inside_seen && !DONE[i - 1])
        }
    };
    if st0 != State::Running {
        kani::assert(n == 0, "C11.T.loop.no-edge-from-a-halted-machine");
    } else {
        kani::assert(n >= 1, "C11.T.loop.at-least-one-edge-when-running");
        kani::assert(n >= 1 && ends_after(n), "C11.T.loop.never-fewer-edges-than-needed");
        let mut i = 1;
        while i < n {
            kani::assert(!ends_after(i), "C11.T.loop.never-more-edges-than-needed");
            i += 1;
        }
    }
    kani::assert(m.step_mode() == StepMode::Assembly, "C11.T.loop.mode-kept");
}

/// B.def — what the step loop takes as "instruction boundary": `is_instruction_done()` is true exactly
/// when the word executed last is an instruction-fetch word — for every certified control state and
/// whatever else is going on in the machine (pending key interrupt, pending wait, halted, ...).
#[cfg_attr(kani, kani::proof)]
pub(crate) fn c11_boundary_definition() {
    let r = any_raw();
    vassume(wf_raw(&r));
    vassume(in_cert(maddr(&r), ir(&r)) || in_stuck(maddr(&r), ir(&r)));
    vcover!(is_first_fetch(cur_word(&r)), "pre.at-a-fetch-word");
    vcover!(!is_first_fetch(cur_word(&r)), "pre.inside-an-instruction");
    vassert!(r.is_instruction_done() == is_first_fetch(cur_word(&r)), "C11.B.def.boundary-is-exactly-a-fetch-word-just-executed");
    let m = mk_machine(r, any_step_mode());
    vassert!(m.is_instruction_done() == is_first_fetch(cur_word(raw_of(&m))), "C11.B.def.machine-sees-the-same-boundary");
}

/// M.mode — switching the step mode touches nothing but the mode ("switching step mode at any point
/// does not alter the computation": the machine state the next edges start from is the same).
#[cfg_attr(kani, kani::proof)]
pub(crate) fn c11_set_step_mode_frame() {
    let mut m = any_machine();
    vassume(wf_machine(&m));
    let old = m.clone();
    let mode = any_step_mode();
    vcover!(mode != old.step_mode(), "pre.switch");
    m.set_step_mode(mode);
    vassert!(m.step_mode() == mode, "C11.M.mode.set");
    vassert!(raw_same(raw_of(&m), raw_of(&old)), "C11.M.mode.machine-state-untouched");
}

/// In the stuck set (undefined first byte) the second edge is a fixpoint: nothing changes any more.
#[cfg_attr(kani, kani::proof)]
pub(crate) fn c11_stuck_is_fixpoint() {
    let mut r = any_raw();
    vassume(wf_raw(&r));
    vassume(r.state() == State::Running);
    vassume(in_stuck(maddr(&r), ir(&r)));
    vcover!(true, "pre.stuck-state-exists");
    r.trigger_clock_edge();
    r.trigger_clock_edge();
    // (a pending register write left over in the arbitrary pre-state may trip the supervision: C05)
    vassume(r.state() == State::Running);
    let after_two = r.clone();
    r.trigger_clock_edge();
    vassert!(raw_same(&r, &after_two), "C11.T.term.stuck-state-reaches-fixpoint");
    vassert!(r == after_two, "C11.T.term.fixpoint-visible-to-derived-equality");
    vassert!(!r.is_instruction_done() && r.state() == State::Running, "C11.T.term.stuck-means-no-boundary");
}

/// The real step loop returns from a stuck state (termination bound = unwinding assertion).
#[cfg_attr(kani, kani::proof)]
#[cfg_attr(kani, kani::unwind(6))]
pub(crate) fn c11_stuck_step_returns() {
    let mut r = any_raw();
    vassume(wf_raw(&r));
    vassume(r.state() == State::Running);
    // WLOG word 0x083 with opcode 0x4C..0x4F (the 0xE_ words behave alike: c11_stuck_is_fixpoint covers all)
    r.trigger_clock_edge();
    let low: u8 = vany();
    let mut m = mk_machine(r, StepMode::Assembly);
    vassume(maddr(raw_of(&m)) == 0x083 && ir(raw_of(&m)) == 0x4C | (low & 3));
    vassume(raw_of(&m).state() == State::Running && no_pending_register_write(raw_of(&m)));
    vcover!(true, "pre.stuck-state-exists");
    let before = m.clone();
    m.trigger_key_clock();
    // the call returned (the unwinding assertion of the loop is the termination bound) and, being stuck,
    // the machine is still inside the undefined instruction
    vassert!(m.state() == State::Running && maddr(raw_of(&m)) == maddr(raw_of(&before)), "C11.T.term.step-returns-from-unknown-opcode");
}

/// Long horizon (thorough tier): started INSIDE an instruction, the step must run exactly until the
/// first edge after which the reference ends it, for instructions of up to 40 edges (every instruction but a long DIV; an edge budget
/// below the horizon is caught here, a larger one is not: stated limit of T.loop).
#[cfg(kani)]
#[kani::proof]
#[kani::unwind(44)]
#[kani::stub(crate::machine::raw::RawMachine::trigger_clock_edge, crate::machine::raw::verif_c11r::abstract_edge_long)]
pub(crate) fn c11_x_loop_logic_long() {
    let mut m = mk_machine(RawMachine::new(), StepMode::Assembly);
    set_control(raw_mut_of(&mut m), false, State::Running);
    unsafe {
        L_EDGES = 0;
        L_FIRST_END = 0;
    }
    m.trigger_key_clock();
    let (n, first_end) = unsafe { (L_EDGES, L_FIRST_END) };
    kani::cover!(n == 39, "pre.long-instruction");
    kani::assert(n >= 1 && n == first_end, "C11.T.loop.long.exactly-to-the-end-of-the-instruction");
}
#[cfg(not(kani))]
pub(crate) fn c11_x_loop_logic_long() {}

#[cfg(kani)]
#[kani::proof]
#[kani::unwind(9)]
#[kani::stub(crate::machine::raw::RawMachine::trigger_clock_edge, crate::machine::raw::verif_c11r::abstract_edge)]
pub(crate) fn c11_canary() {
    let mut m = mk_machine(RawMachine::new(), StepMode::Assembly);
    set_control(raw_mut_of(&mut m), true, State::Running);
    unsafe {
        EDGES = 0;
    }
    m.trigger_key_clock();
    // wrong on purpose: one step is always exactly two edges
    kani::assert(unsafe { EDGES } == 2, "CANARY");
}
#[cfg(not(kani))]
pub(crate) fn c11_loop_logic() {}
#[cfg(not(kani))]
pub(crate) fn c11_canary() {}

crate::replay_table!(verif_replay_c11; c11_boundary_definition, c11_set_step_mode_frame, c11_real_mode_is_one_edge, c11_loop_logic, c11_stuck_is_fixpoint, c11_stuck_step_returns, c11_x_loop_logic_long, c11_canary,);
