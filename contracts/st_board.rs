// Symbolic-state constructors, representation invariant and bitwise comparison for `Board`
// (injected as `machine::board::verif_st_board`).  No repository code; private fields are reachable
// because this is a child module of `machine::board`.
use super::*;
use crate::verif_shim::*;

/// Every field symbolic (floats: all 2^32 bit patterns; bit registers: every value of the type).
pub(crate) fn any_board() -> Board {
    Board {
        digital_input1: vany(),
        digital_output1: vany(),
        digital_output2: vany(),
        temp: vany(),
        dasr: DASR::from_bits_truncate(vany()),
        daisr: DAISR::from_bits_truncate(vany()),
        daicr: DAICR::from_bits_truncate(vany()),
        analog_inputs: [vany(), vany()],
        analog_outputs: [vany(), vany()],
        fan_rpm: vany(),
        uio_dir: [vany(), vany(), vany()],
    }
}

pub(crate) fn volt_ok(v: f32) -> bool {
    v >= 0.0 && v <= 5.0
}

/// Representation invariant of the board as far as the *stored voltages* go (what every setter
/// establishes for the field it writes): finite, within 0..5 V.
pub(crate) fn wf_board(b: &Board) -> bool {
    volt_ok(b.temp) && volt_ok(b.analog_inputs[0]) && volt_ok(b.analog_inputs[1])
        // DAC voltages are always byte / 100 (or the power-on 0.0): in particular never NaN
        && b.analog_outputs[0] == b.analog_outputs[0]
        && b.analog_outputs[1] == b.analog_outputs[1]
        // the fan never turns faster than its documented maximum (4200 rpm at 2.55 V)
        && b.fan_rpm <= 4200
}

/// Field-by-field equality with floats compared by bit pattern (NaN-safe frame conditions).
/// The exhaustive destructuring makes a field added later a compile error (=> undecided, exit 2).
pub(crate) fn board_same(a: &Board, b: &Board) -> bool {
    let Board {
        digital_input1: a0,
        digital_output1: a1,
        digital_output2: a2,
        temp: a3,
        dasr: a4,
        daisr: a5,
        daicr: a6,
        analog_inputs: a7,
        analog_outputs: a8,
        fan_rpm: a9,
        uio_dir: a10,
    } = a;
    let Board {
        digital_input1: b0,
        digital_output1: b1,
        digital_output2: b2,
        temp: b3,
        dasr: b4,
        daisr: b5,
        daicr: b6,
        analog_inputs: b7,
        analog_outputs: b8,
        fan_rpm: b9,
        uio_dir: b10,
    } = b;
    a0 == b0
        && a1 == b1
        && a2 == b2
        && a3.to_bits() == b3.to_bits()
        && a4 == b4
        && a5 == b5
        && a6 == b6
        && a7[0].to_bits() == b7[0].to_bits()
        && a7[1].to_bits() == b7[1].to_bits()
        && a8[0].to_bits() == b8[0].to_bits()
        && a8[1].to_bits() == b8[1].to_bits()
        && a9 == b9
        && a10 == b10
}

/// Mutable projections used by contracts that need to state "everything except field X is unchanged":
/// copy `src`'s value of one field into `dst`.
pub(crate) fn copy_dasr(dst: &mut Board, src: &Board) {
    dst.dasr = src.dasr;
}
pub(crate) fn copy_daisr(dst: &mut Board, src: &Board) {
    dst.daisr = src.daisr;
}
pub(crate) fn fan_rpm_of(b: &Board) -> usize {
    b.fan_rpm
}

// ---- cheap deterministic stand-ins for the float-heavy board operations (used ONLY by the C01/C15/C04
// instruction triples via `#[kani::stub]`; the real functions carry their own contracts in C14).
// The CPU never looks inside the board, it only forwards a byte to / from it, so the triples treat
// these three operations as uninterpreted.
#[cfg(kani)]
pub(crate) fn stub_set_digital_output1(b: &mut Board, value: u8) {
    b.digital_output1 = value;
    b.dasr.insert(DASR::FAN);
}
#[cfg(kani)]
pub(crate) fn stub_set_digital_output2(b: &mut Board, value: u8) {
    b.digital_output2 = value;
}
#[cfg(kani)]
pub(crate) fn stub_get_fan_period(b: &Board) -> u8 {
    b.digital_output1 ^ 0xFF
}
