// Symbolic-state constructors, representation invariant and comparison for `RawMachine`
// (injected as `machine::raw::verif_st_raw`).  Child module of `machine::raw`, so the private
// fields (latches, micro-address, IR, limits) are directly visible.
use super::*;
use crate::machine::alu::verif_st_alu::*;
use crate::machine::bus::verif_st_bus::*;
use crate::verif_shim::*;
use enum_primitive::FromPrimitive;

pub(crate) fn any_regnum() -> RegisterNumber {
    let n: u8 = vany();
    vassume(n < 8);
    RegisterNumber::from_u8(n).unwrap()
}

pub(crate) fn any_opt_regnum() -> Option<RegisterNumber> {
    let some: bool = vany();
    if some {
        Some(any_regnum())
    } else {
        None
    }
}

pub(crate) fn any_stacksize() -> Stacksize {
    let n: u8 = vany();
    vassume(n < 6);
    match n {
        0 => Stacksize::_0,
        1 => Stacksize::_16,
        2 => Stacksize::_32,
        3 => Stacksize::_48,
        4 => Stacksize::_64,
        _ => Stacksize::NotSet,
    }
}

pub(crate) fn any_programsize() -> Programsize {
    let n: u8 = vany();
    let v: u8 = vany();
    vassume(n < 3);
    match n {
        0 => Programsize::Size(v),
        1 => Programsize::Auto,
        _ => Programsize::NotSet,
    }
}

pub(crate) fn any_state() -> State {
    let n: u8 = vany();
    vassume(n < 3);
    match n {
        0 => State::Stopped,
        1 => State::ErrorStopped,
        _ => State::Running,
    }
}

/// Every field of the machine symbolic.  `micro-address` is any usize: callers add `wf_raw`.
pub(crate) fn any_raw() -> RawMachine {
    let mut mp = MicroprogramRam::new();
    mp.set_address(vany());
    let mut ir = InstructionRegister::new();
    ir.set_raw(vany());
    let mut register = Register::new();
    let content: [u8; 8] = vany();
    register.set(RegisterNumber::R0, content[0]);
    register.set(RegisterNumber::R1, content[1]);
    register.set(RegisterNumber::R2, content[2]);
    register.set(RegisterNumber::R3, content[3]);
    register.set(RegisterNumber::R4, content[4]);
    register.set(RegisterNumber::R5, content[5]);
    register.set(RegisterNumber::R6, content[6]);
    register.set(RegisterNumber::R7, content[7]);
    RawMachine {
        microprogram_ram: mp,
        register,
        instruction_register: ir,
        bus: any_bus(),
        pending_register_write: any_opt_regnum(),
        pending_flag_write: if vany() { Some(FlagWrite) } else { None },
        pending_edge_interrupt: if vany() { Some(Interrupt) } else { None },
        pending_level_interrupt: if vany() { Some(Interrupt) } else { None },
        state: any_state(),
        pending_wait_for_memory: if vany() { Some(MemoryWait) } else { None },
        alu_output: any_alu_output(),
        stacksize: any_stacksize(),
        programsize: any_programsize(),
        last_bus_read: vany(),
    }
}

/// Representation invariant of the machine: what `RawMachine::new`, every reset, `load` and every
/// clock edge establish/preserve and what the public API relies on.
///  - the micro-address indexes the 512-word control store;
///  - the stack size has been set (`load` never stores `NotSet`; `new` starts with the default);
///  - the level-interrupt latch is never set (no level source is implemented);
///  - the board's stored voltages are within 0..5 V.
pub(crate) fn wf_raw(m: &RawMachine) -> bool {
    m.microprogram_ram.get_address() < 512
        && m.stacksize != Stacksize::NotSet
        && m.pending_level_interrupt.is_none()
        && wf_bus(&m.bus)
}

pub(crate) fn raw_same(a: &RawMachine, b: &RawMachine) -> bool {
    let RawMachine {
        microprogram_ram: a0,
        register: a1,
        instruction_register: a2,
        bus: a3,
        pending_register_write: a4,
        pending_flag_write: a5,
        pending_edge_interrupt: a6,
        pending_level_interrupt: a7,
        state: a8,
        pending_wait_for_memory: a9,
        alu_output: a10,
        stacksize: a11,
        programsize: a12,
        last_bus_read: a13,
    } = a;
    let RawMachine {
        microprogram_ram: b0,
        register: b1,
        instruction_register: b2,
        bus: b3,
        pending_register_write: b4,
        pending_flag_write: b5,
        pending_edge_interrupt: b6,
        pending_level_interrupt: b7,
        state: b8,
        pending_wait_for_memory: b9,
        alu_output: b10,
        stacksize: b11,
        programsize: b12,
        last_bus_read: b13,
    } = b;
    a0 == b0
        && a1 == b1
        && a2 == b2
        && bus_same(a3, b3)
        && a4 == b4
        && a5 == b5
        && a6 == b6
        && a7 == b7
        && a8 == b8
        && a9 == b9
        && a10 == b10
        && a11 == b11
        && a12 == b12
        && a13 == b13
}

// ---- decoded view of the control word the machine currently points at (the *real* table) ----
pub(crate) fn cur_word(m: &RawMachine) -> Word {
    *m.microprogram_ram.get_word()
}
pub(crate) fn word_at(addr: usize) -> Word {
    MicroprogramRam::CONTENT[addr]
}
pub(crate) fn reg(m: &RawMachine, n: u8) -> u8 {
    m.register.content()[n as usize]
}
pub(crate) fn maddr(m: &RawMachine) -> usize {
    m.microprogram_ram.get_address()
}
pub(crate) fn ir(m: &RawMachine) -> u8 {
    m.instruction_register.get_raw()
}
pub(crate) fn no_pending_register_write(m: &RawMachine) -> bool {
    m.pending_register_write.is_none()
}
