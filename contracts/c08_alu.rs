// C08 — contract of `AluOutput::from_input` (injected as `machine::alu::verif_c08`).
//
//   requires  true                         (every AluSelect, every a, b, carry-in)
//   ensures   result.output    == alu_ref(f, a, b, cin).0
//             result.carry_out == alu_ref(f, a, b, cin).1
//             result.zero_out  == (result.output == 0)
//             result.negative_out == (result.output >= 128)
//
// `alu_ref` is the documented function table: written from the property statement and the doc
// comments of `AluSelect`, in widened (u16) arithmetic, independent of the code under contract.
// One obligation per (function, output|carry|zero|negative) so that a failure names the function.
use super::*;
use crate::verif_shim::*;
use crate::{vassert, vcover};

/// Documented ALU function: (result, carry-out).
pub(crate) fn alu_ref(f: u8, a: u8, b: u8, cin: bool) -> (u8, bool) {
    let (a16, b16, c16) = (a as u16, b as u16, cin as u16);
    let lsb = a & 1 == 1;
    match f {
        // ADDH: carry-holding add: carry-out = carry-in or overflow
        0b0000 => (((a16 + b16) & 0xFF) as u8, cin || a16 + b16 > 0xFF),
        // A: pass A
        0b0001 => (a, false),
        // NOR
        0b0010 => (!(a | b), false),
        // ZERO
        0b0011 => (0, false),
        // ADD
        0b0100 => (((a16 + b16) & 0xFF) as u8, a16 + b16 > 0xFF),
        // ADDS: A + B + 1, carry inverted
        0b0101 => (((a16 + b16 + 1) & 0xFF) as u8, !(a16 + b16 + 1 > 0xFF)),
        // ADC: A + B + carry-in
        0b0110 => (((a16 + b16 + c16) & 0xFF) as u8, a16 + b16 + c16 > 0xFF),
        // ADCS: A + B + !carry-in, carry inverted
        0b0111 => (
            ((a16 + b16 + (1 - c16)) & 0xFF) as u8,
            !(a16 + b16 + (1 - c16) > 0xFF),
        ),
        // LSR
        0b1000 => (a / 2, lsb),
        // RR: bit 0 rotates into bit 7
        0b1001 => (a / 2 + if lsb { 0x80 } else { 0 }, lsb),
        // RRC: carry-in rotates into bit 7
        0b1010 => (a / 2 + if cin { 0x80 } else { 0 }, lsb),
        // ASR: bit 7 is kept
        0b1011 => (a / 2 + if a >= 0x80 { 0x80 } else { 0 }, lsb),
        // B / SETC / BH / INVC: pass B; clear, set, hold, invert carry
        0b1100 => (b, false),
        0b1101 => (b, true),
        0b1110 => (b, cin),
        _ => (b, !cin),
    }
}

fn sel(f: u8) -> AluSelect {
    match f {
        0b0000 => AluSelect::ADDH,
        0b0001 => AluSelect::A,
        0b0010 => AluSelect::NOR,
        0b0011 => AluSelect::ZERO,
        0b0100 => AluSelect::ADD,
        0b0101 => AluSelect::ADDS,
        0b0110 => AluSelect::ADC,
        0b0111 => AluSelect::ADCS,
        0b1000 => AluSelect::LSR,
        0b1001 => AluSelect::RR,
        0b1010 => AluSelect::RRC,
        0b1011 => AluSelect::ASR,
        0b1100 => AluSelect::B,
        0b1101 => AluSelect::SETC,
        0b1110 => AluSelect::BH,
        _ => AluSelect::INVC,
    }
}

macro_rules! alu_harness {
    ($name:ident, $f:expr, $o:literal, $c:literal, $z:literal, $n:literal) => {
        #[cfg_attr(kani, kani::proof)]
        pub(crate) fn $name() {
            let a: u8 = vany();
            let b: u8 = vany();
            let cin: bool = vany();
            // the enum discriminant is the documented 4-bit function code
            vassert!(sel($f) as u8 == $f, "C08.select.code");
            vcover!(true, "pre");
            let r = AluOutput::from_input(&AluInput::new(a, b, cin), &sel($f));
            let (o, c) = alu_ref($f, a, b, cin);
            vassert!(r.output() == o, $o);
            vassert!(r.carry_out() == c, $c);
            vassert!(r.zero_out() == (r.output() == 0), $z);
            vassert!(r.negative_out() == (r.output() >= 128), $n);
        }
    };
}

alu_harness!(c08_addh, 0b0000, "C08.ADDH.result", "C08.ADDH.carry", "C08.ADDH.zero", "C08.ADDH.negative");
alu_harness!(c08_a, 0b0001, "C08.A.result", "C08.A.carry", "C08.A.zero", "C08.A.negative");
alu_harness!(c08_nor, 0b0010, "C08.NOR.result", "C08.NOR.carry", "C08.NOR.zero", "C08.NOR.negative");
alu_harness!(c08_zero, 0b0011, "C08.ZERO.result", "C08.ZERO.carry", "C08.ZERO.zero", "C08.ZERO.negative");
alu_harness!(c08_add, 0b0100, "C08.ADD.result", "C08.ADD.carry", "C08.ADD.zero", "C08.ADD.negative");
alu_harness!(c08_adds, 0b0101, "C08.ADDS.result", "C08.ADDS.carry", "C08.ADDS.zero", "C08.ADDS.negative");
alu_harness!(c08_adc, 0b0110, "C08.ADC.result", "C08.ADC.carry", "C08.ADC.zero", "C08.ADC.negative");
alu_harness!(c08_adcs, 0b0111, "C08.ADCS.result", "C08.ADCS.carry", "C08.ADCS.zero", "C08.ADCS.negative");
alu_harness!(c08_lsr, 0b1000, "C08.LSR.result", "C08.LSR.carry", "C08.LSR.zero", "C08.LSR.negative");
alu_harness!(c08_rr, 0b1001, "C08.RR.result", "C08.RR.carry", "C08.RR.zero", "C08.RR.negative");
alu_harness!(c08_rrc, 0b1010, "C08.RRC.result", "C08.RRC.carry", "C08.RRC.zero", "C08.RRC.negative");
alu_harness!(c08_asr, 0b1011, "C08.ASR.result", "C08.ASR.carry", "C08.ASR.zero", "C08.ASR.negative");
alu_harness!(c08_b, 0b1100, "C08.B.result", "C08.B.carry", "C08.B.zero", "C08.B.negative");
alu_harness!(c08_setc, 0b1101, "C08.SETC.result", "C08.SETC.carry", "C08.SETC.zero", "C08.SETC.negative");
alu_harness!(c08_bh, 0b1110, "C08.BH.result", "C08.BH.carry", "C08.BH.zero", "C08.BH.negative");
alu_harness!(c08_invc, 0b1111, "C08.INVC.result", "C08.INVC.carry", "C08.INVC.zero", "C08.INVC.negative");

/// The decoder used by the CPU (`AluSelect::from_u8`) maps every 4-bit code to the function of
/// that code (so "function k" in the table above is what the micro-word field k selects).
#[cfg_attr(kani, kani::proof)]
pub(crate) fn c08_decode() {
    let f: u8 = vany();
    vassume(f < 16);
    vcover!(true, "pre");
    let s = AluSelect::from_u8(f);
    vassert!(s.is_some(), "C08.decode.total");
    vassert!(s.map(|s| s as u8) == Some(f), "C08.decode.code");
    vassert!(s == Some(sel(f)), "C08.decode.same");
}

/// Canary (vacuity guard): the same obligation with a deliberately wrong clause must be REFUTED.
#[cfg_attr(kani, kani::proof)]
pub(crate) fn c08_canary() {
    let a: u8 = vany();
    let b: u8 = vany();
    let r = AluOutput::from_input(&AluInput::new(a, b, false), &AluSelect::ADD);
    vassert!(r.carry_out() == (alu_ref(0b0100, a, b, false).1 ^ (a == 200 && b == 100)), "CANARY");
}

crate::replay_table!(verif_replay_c08;
    c08_addh, c08_a, c08_nor, c08_zero, c08_add, c08_adds, c08_adc, c08_adcs,
    c08_lsr, c08_rr, c08_rrc, c08_asr, c08_b, c08_setc, c08_bh, c08_invc,
    c08_decode, c08_canary,
);
