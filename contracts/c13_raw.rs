// C13 — "returns normally and preserves the representation invariant" for every public mutator of
// `RawMachine` from an arbitrary invariant-satisfying state (injected as `machine::raw::verif_c13`).
//
// "Returns normally" is Kani's generated obligations on the real code: no panic (`expect`,
// `unreachable!`, `unimplemented!`), no arithmetic overflow, no out-of-bounds index, no invalid
// enum cast, no shift overflow.  The named clauses add `wf` preservation and "can be read further".
use super::verif_st_raw::*;
use super::*;
use crate::verif_shim::*;
use crate::{vassert, vcover};

fn read_everything(m: &RawMachine) -> u32 {
    // every public getter, and a read of every bus address, must be total on the post-state
    let s = m.signals();
    let mut acc = 0u32;
    acc += s.next_microprogram_address() as u32;
    acc += s.alu_select() as u32;
    acc += s.selected_register_a() as u32 + s.selected_register_b() as u32 + s.selected_register_for_writing() as u32;
    acc += s.alu_input_b_constant() as u32;
    acc += m.is_instruction_done() as u32 + m.word().bits() as u32 + m.registers().content()[0] as u32;
    acc += (m.state() == State::Running) as u32;
    let a: u8 = vany();
    acc += m.bus().read(a) as u32;
    acc += m.bus().output_fe() as u32 + m.bus().output_ff() as u32 + m.bus().memory()[0] as u32;
    acc += (m.stacksize() == Stacksize::_0) as u32 + (m.programsize() == Programsize::Auto) as u32;
    acc
}

#[cfg_attr(kani, kani::proof)]
pub(crate) fn c13_edge() {
    let mut m = any_raw();
    vassume(wf_raw(&m));
    vcover!(m.state == State::Running && m.pending_wait_for_memory.is_none(), "pre.running");
    m.trigger_clock_edge();
    vassert!(wf_raw(&m), "C13.edge.wf-preserved");
    let _ = read_everything(&m);
}

#[cfg_attr(kani, kani::proof)]
pub(crate) fn c13_two_edges() {
    // "can be stepped further": the successor of any wf state is again steppable (follows from
    // wf preservation; checked directly as well)
    let mut m = any_raw();
    vassume(wf_raw(&m));
    vcover!(m.state == State::Running, "pre.running");
    m.trigger_clock_edge();
    m.trigger_clock_edge();
    vassert!(wf_raw(&m), "C13.edge2.wf-preserved");
}

#[cfg_attr(kani, kani::proof)]
pub(crate) fn c13_keys_resets() {
    let mut m = any_raw();
    vassume(wf_raw(&m));
    let op: u8 = vany();
    vassume(op < 6);
    vcover!(op == 5, "pre.last-op");
    match op {
        0 => m.trigger_key_edge_interrupt(),
        1 => m.trigger_key_continue(),
        2 => m.cpu_reset(),
        3 => m.master_reset(),
        4 => {
            let s = any_stacksize();
            vassume(s != Stacksize::NotSet);
            m.set_stacksize(s)
        }
        _ => m.set_programsize(any_programsize()),
    }
    vassert!(wf_raw(&m), "C13.ops.wf-preserved");
    let _ = read_everything(&m);
    m.trigger_clock_edge();
    vassert!(wf_raw(&m), "C13.ops.then-edge.wf-preserved");
}

/// The power-on machine satisfies the invariant (base case of the induction).
#[cfg_attr(kani, kani::proof)]
pub(crate) fn c13_init() {
    let m = RawMachine::new();
    vcover!(true, "pre");
    vassert!(wf_raw(&m), "C13.init.wf");
    vassert!(m.state == State::Running, "C13.init.running");
}

/// The supervision predicates are total for every SP/PC and every *set* stack size.
#[cfg_attr(kani, kani::proof)]
pub(crate) fn c13_supervision_total() {
    let m = any_raw();
    vassume(wf_raw(&m));
    vcover!(true, "pre");
    let _ = m.is_stackpointer_valid();
    let _ = m.is_program_counter_valid();
}

#[cfg_attr(kani, kani::proof)]
pub(crate) fn c13_canary() {
    // without the invariant the edge *can* panic (unset stack size): the harness shape must see it
    let mut m = any_raw();
    vassume(m.microprogram_ram.get_address() < 512);
    m.trigger_clock_edge();
    vassert!(m.stacksize != Stacksize::NotSet, "CANARY");
}

crate::replay_table!(verif_replay_c13_raw;
    c13_edge, c13_two_edges, c13_keys_resets, c13_init, c13_supervision_total, c13_canary,
);
