// C05 (machine level) — no external stimulus other than continue/reset changes the run state:
// frame of the 13 `Machine` setters, and `Machine::load` establishing the supervision invariant
// (injected as `machine::verif_c05m`).
use super::raw::verif_c05::*;
use super::raw::verif_st_raw::*;
use super::verif_st_machine::*;
use super::*;
use crate::verif_shim::*;
use crate::{vassert, vcover};

pub(crate) fn apply_setter(m: &mut Machine, k: u8) {
    match k {
        0 => m.set_input_fc(vany()),
        1 => m.set_input_fd(vany()),
        2 => m.set_input_fe(vany()),
        3 => m.set_input_ff(vany()),
        4 => m.set_digital_input1(vany()),
        5 => m.set_temp(vany()),
        6 => m.set_jumper1(vany()),
        7 => m.set_jumper2(vany()),
        8 => m.set_analog_input1(vany()),
        9 => m.set_analog_input2(vany()),
        10 => m.set_universal_input_output1(vany()),
        11 => m.set_universal_input_output2(vany()),
        _ => m.set_universal_input_output3(vany()),
    }
}

#[cfg_attr(kani, kani::proof)]
pub(crate) fn c05_setters_leave_halt() {
    let mut m = any_machine();
    vassume(wf_machine(&m));
    let old = m.clone();
    let k: u8 = vany();
    vassume(k < 13);
    vcover!(k == 12 && old.state() != State::Running, "pre.halted");
    apply_setter(&mut m, k);
    // everything of the CPU side is untouched: state, registers, latches, limits, RAM ...
    let mut exp = old.clone();
    *raw_mut_of(&mut exp).bus_mut() = m.bus().clone();
    vassert!(machine_same(&m, &exp), "C05.F.setters-touch-only-the-bus");
    vassert!(m.state() == old.state(), "C05.F.setters-leave-run-state");
    vassert!(m.bus().memory() == old.bus().memory(), "C05.F.setters-leave-ram");
    m.set_step_mode(any_step_mode());
    vassert!(m.state() == old.state(), "C05.F.step-mode-leaves-run-state");
}

/// The machine-level keys are exactly the raw machine's operations of the same name (wiring): the
/// continue key, the interrupt key, both resets and a Real-mode clock.
#[cfg_attr(kani, kani::proof)]
pub(crate) fn c05_machine_keys_are_the_raw_operations() {
    let mut m = any_machine();
    vassume(wf_machine(&m));
    let mut r = raw_of(&m).clone();
    let mode = m.step_mode();
    let op: u8 = vany();
    vassume(op < 4);
    vcover!(op == 0 && r.state() == State::Stopped, "pre.continue-from-stop");
    match op {
        0 => {
            m.trigger_key_continue();
            r.trigger_key_continue();
        }
        1 => {
            m.trigger_key_interrupt();
            r.trigger_key_edge_interrupt();
        }
        2 => {
            m.cpu_reset();
            r.cpu_reset();
        }
        _ => {
            m.master_reset();
            r.master_reset();
        }
    }
    vassert!(raw_same(raw_of(&m), &r), "C05.K.machine-key-is-the-raw-operation");
    vassert!(m.step_mode() == mode, "C05.K.machine-key-keeps-step-mode");
}

#[cfg_attr(kani, kani::proof)]
pub(crate) fn c05_load_establishes() {
    let mut m = any_machine();
    vassume(wf_machine(&m));
    vcover!(true, "pre");
    let program = crate::compiler::ByteCode {
        lines: vec![],
        stacksize: any_stacksize(),
        programsize: any_programsize(),
    };
    m.load(program);
    vassert!(m.state() == State::Running, "C05.R.load-leaves-halt");
    vassert!(inv_c05(raw_of(&m)) && limits_ok(raw_of(&m)), "C05.S.inv.load");
    vassert!(wf_machine(&m), "C05.S.load-keeps-wf");
}

crate::replay_table!(verif_replay_c05m; c05_setters_leave_halt, c05_machine_keys_are_the_raw_operations, c05_load_establishes,);
